"""C06: pairings (BLS12 both twist types, BN, BW6, MNT4, MNT6).  Case generator + metadata.

Model-level ops (every family has an executable Coq model) compare the prepared
coefficients, the raw Miller loop output and the final exponentiation coordinate by
coordinate; law-level ops (all engines) evaluate a relation with the public Rust API and
compare with the model's specified answer (all true)."""
import sys, os, json
sys.path.insert(0, '/verif/lib')

OPS = {
    'multi_pairing': 1, 'multi_miller_loop': 2, 'final_exp': 3, 'g2_prepare': 4, 'g1_prepare': 5,
    'bilinearity_check': 10, 'additivity_check': 11, 'multi_pairing_vs_product': 12,
    'pairing_with_identity_is_one': 13, 'output_order_divides_r': 14,
    'generators_nondegenerate': 15, 'prepared_vs_unprepared': 16, 'pairing_with_decoded_identity': 17,
}
LAW_OPS = {k for k, v in OPS.items() if v >= 10}

# engine id -> (name, tower cid of C02, family id, family tag)
ENGINES = {
    0: ('ark_bls12_381', 0, 0, 'bls12_M'),
    1: ('ark_bls12_377', 1, 0, 'bls12_D'),
    2: ('ark_bn254', 2, 1, 'bn'),
    3: ('ark_mnt4_298', 3, 2, 'mnt4'),
    4: ('ark_mnt4_753', 4, 2, 'mnt4'),
    5: ('ark_mnt6_298', 5, 3, 'mnt6'),
    6: ('ark_mnt6_753', 6, 3, 'mnt6'),
    7: ('ark_bw6_761', 7, 4, 'bw6'),
    8: ('ark_bw6_767', 8, 4, 'bw6'),
    10: ('ark_test_curves::bls12_381', 0, 0, 'bls12_M'),
}
MODELLED = [0, 1, 2, 10]                     # BLS12 / BN (Fp12 tower)
MODELLED_SMALL = {'quick': [3, 5], 'thorough': [3, 5, 4, 6]}     # MNT4 / MNT6
MODELLED_BW6 = {'quick': [7], 'thorough': [7, 8]}
G2_DEG = {0: 2, 1: 2, 2: 2, 3: 3, 4: 1}      # family -> degree of the G2 base field
TARGET_DEG = {0: 12, 1: 12, 2: 4, 3: 6, 4: 6}
PARAMS_JSON = os.path.join(os.path.dirname(os.path.abspath(__file__)), 'params.json')
HARNESS_BIN = 'c06'


def pre(ctx):
    """rebuild the harness and re-dump every constant from the Rust configurations"""
    sh = ctx['sh']
    hdir, tdir = ctx['harness_dir']()
    rc, out = sh('cargo build --offline --bin c06', cwd=hdir, timeout=3000,
                 env={'RUSTFLAGS': '--cfg arkworks_rs_algebra_verif'})
    if rc != 0:
        raise RuntimeError('harness build failed in pre(): params.json not refreshed')
    keys = sorted(ENGINES)
    lines = ['99:dump %x' % e for e in keys]
    rc, out = sh([tdir + '/debug/c06'], inp='\n'.join(lines) + '\n', timeout=300)
    ol = [l for l in out.splitlines() if l.strip()]
    if rc != 0 or len(ol) != len(keys):
        raise RuntimeError('dump failed: rc=%d' % rc)
    d = {}
    for e, l in zip(keys, ol):
        parts = l.split(' ')
        if parts[0] != '0':
            raise RuntimeError('dump of engine %d returned %s' % (e, parts[0]))
        d[str(e)] = parts[1:]
    old = json.load(open(PARAMS_JSON)) if os.path.exists(PARAMS_JSON) else None
    if old != d:
        with open(PARAMS_JSON, 'w') as f:
            json.dump(d, f, indent=0, sort_keys=True)
            f.write('\n')
        ctx['notes'].append('params.json regenerated: pairing constants changed (or first run)')
    if write_curve_consts(load_params()):
        ctx['notes'].append('coq/C06/CurveConsts.v regenerated from the dumped constants')


# ---------------------------------------------------------------------------------------
# coq/C06/CurveConsts.v: the integer constants of every shipped pairing curve (from the dump
# above) and, per curve, the cofactor witness c = E * r / (p^k - 1) of the final
# exponentiation exponent E (computed here, *checked* in the kernel by CurveFacts.v).
CONSTS_V = '/verif/coq/C06/CurveConsts.v'
CURVE_NAMES = {0: 'bls12_381', 1: 'bls12_377', 2: 'bn254', 3: 'mnt4_298', 4: 'mnt4_753', 5: 'mnt6_298',
               6: 'mnt6_753', 7: 'bw6_761', 8: 'bw6_767'}


def _val(limbs):
    return sum(l << (64 * i) for i, l in enumerate(limbs))


def curve_exponent(e, prm):
    """(definitions: list of (name, int or bool), E as int, k)"""
    fam = ENGINES[e][2]
    p, r = prm['p'], prm['r']
    if fam in (0, 1):
        x = _val(prm['X'])
        if prm['fam'][1] == 1:
            x = -x
        easy = (p ** 6 - 1) * (p ** 2 + 1)
        if fam == 0:
            hard = (x - 1) ** 2 * (x + p) * (x ** 2 + p ** 2 - 1) + 3
        else:
            hard = (p ** 3 * (12 * x ** 3 + 6 * x ** 2 + 4 * x - 1) + p ** 2 * (12 * x ** 3 + 6 * x ** 2 + 6 * x)
                    + p * (12 * x ** 3 + 6 * x ** 2 + 4 * x) + (12 * x ** 3 + 12 * x ** 2 + 6 * x + 1))
        return [('x', x)], easy * hard, 12
    if fam in (2, 3):
        W = prm['X']
        h = len(W) // 2
        w1, w0 = _val(W[:h]), _val(W[h:])
        w0neg = prm['fam'][1] == 1
        last = p * w1 + (-w0 if w0neg else w0)
        first = (p ** 2 - 1) if fam == 2 else (p ** 3 - 1) * (p + 1)
        return [('w1', w1), ('w0', w0), ('w0_is_neg', w0neg)], first * last, (4 if fam == 2 else 6)
    XS = prm['X']
    n = XS[0]
    x, m = _val(XS[1:1 + n]), _val(XS[1 + n:1 + 2 * n])
    F = prm['fam']
    if F[1] == 1:
        x, m = -x, -m
    ht, hy, tmodr = F[5], F[6], F[4] == 1
    quot = lambda a, b: abs(a) // b * (1 if a >= 0 else -1)
    d1 = quot(ht - hy, 2) if tmodr else quot(ht + hy, 2)
    d2 = quot(ht * ht + 3 * hy * hy, 4)
    easy = (p ** 3 - 1) * (p + 1)
    if e == 7:
        R0 = -103 * x ** 7 + 70 * x ** 6 + 269 * x ** 5 - 197 * x ** 4 - 314 * x ** 3 - 73 * x ** 2 - 263 * x - 220
        R1 = (103 * x ** 9 - 276 * x ** 8 + 77 * x ** 7 + 492 * x ** 6 - 445 * x ** 5 - 65 * x ** 4 + 452 * x ** 3
              - 181 * x ** 2 + 34 * x + 229)
        hard = R0 + p * R1
    else:
        A0 = (x - 1) ** 2
        if tmodr:
            A1 = -(1 + A0) + p
            B = A1 * (x + 1) + 1
            A = -(3 * A1)
            C = B * m
            D = C * (x - 1)
            E = D * (x - 1) ** 2 + D
            Fv = -(E * (x + 1) + C) + D
            G = -((Fv + D) * (x + 1)) + C + B
            H = Fv * d1 + E
            hard = A + (3 * H + B + G * d2)
        else:
            A1 = A0 + p
            B = A1 * (x + 1) - 1
            A = 3 * A1
            C = B * m
            D0 = C * (x - 1)
            E = D0 * (x - 1) ** 2 + D0
            D = -D0
            Fc = D + B
            G = E * (x + 1) + Fc
            H = G + C
            I = (G + D) * (x + 1) - Fc
            J = H * d1 + E
            hard = A + (3 * J + B + I * d2)
    return [('x', x), ('m', m), ('d1', d1), ('d2', d2)], easy * hard, 6


def write_curve_consts(prm):
    out = ['(* GENERATED by props/C06/prop.py (pre step) from the constants dumped out of the Rust configurations',
           '   (props/C06/params.json) -- do not edit.  Integer constants of the shipped pairing curves and the',
           '   cofactor witness c = E * r / (p^k - 1) of each final-exponentiation exponent (checked in',
           '   CurveFacts.v).  Definitions only. *)',
           'Require Import ZArith.', 'Open Scope Z_scope.', '']
    for e in sorted(CURVE_NAMES):
        nm = CURVE_NAMES[e]
        defs, E, k = curve_exponent(e, prm[e])
        p, r = prm[e]['p'], prm[e]['r']
        N = p ** k - 1
        c = (E * r) // N
        out.append('Definition %s_p : Z := %d.' % (nm, p))
        out.append('Definition %s_r : Z := %d.' % (nm, r))
        for dn, dv in defs:
            if isinstance(dv, bool):
                out.append('Definition %s_%s : bool := %s.' % (nm, dn, 'true' if dv else 'false'))
            else:
                out.append('Definition %s_%s : Z := %s.' % (nm, dn, ('(%d)' % dv) if dv < 0 else str(dv)))
        out.append('Definition %s_c : Z := %s.' % (nm, ('(%d)' % c) if c < 0 else str(c)))
        out.append('')
    txt = '\n'.join(out)
    old = open(CONSTS_V).read() if os.path.exists(CONSTS_V) else None
    if old != txt:
        with open(CONSTS_V, 'w') as f:
            f.write(txt)
        return True
    return False


def _pa(s):
    if s == '_':
        return []
    return [(-int(t[1:], 16) if t.startswith('-') else int(t, 16)) for t in s.split(',')]


def load_params():
    d = json.load(open(PARAMS_JSON))
    out = {}
    for k, parts in d.items():
        a = [_pa(s) for s in parts]
        e = {'p': a[0][0], 'r': a[0][1], 'g1': a[1], 'g2': a[2], 'ab1': a[3], 'ab2': a[4]}
        if len(a) > 5:
            e.update({'tower': a[5], 'fam': a[6], 'X': a[7], 'ate': a[8]})
        out[int(k)] = e
    return out


# ---------------------------------------------------------------------------------------
# input construction only (scalar multiples of the generators): affine arithmetic over
# F_p and F_p[u]/(u^2 - nr).  Nothing here is compared: both sides receive the same points.
class Fld:
    """F_p[u]/(u^d - nr), d in {1, 2, 3}; elements are ints (d = 1) or tuples"""
    def __init__(self, p, nr=None, d=None):
        self.p, self.nr = p, nr
        self.d = d if d is not None else (1 if nr is None else 2)

    def el(self, l):
        if self.d == 1:
            return l[0] % self.p
        return tuple(l[i] % self.p for i in range(self.d))

    def co(self, x):
        return [x] if self.d == 1 else list(x)

    def add(self, a, b):
        p = self.p
        return (a + b) % p if self.d == 1 else tuple((x + y) % p for x, y in zip(a, b))

    def sub(self, a, b):
        p = self.p
        return (a - b) % p if self.d == 1 else tuple((x - y) % p for x, y in zip(a, b))

    def mul(self, a, b):
        p, d = self.p, self.d
        if d == 1:
            return a * b % p
        r = [0] * (2 * d - 1)
        for i in range(d):
            for j in range(d):
                r[i + j] += a[i] * b[j]
        for k in range(2 * d - 2, d - 1, -1):
            r[k - d] += self.nr * r[k]
        return tuple(x % p for x in r[:d])

    def inv(self, a):
        p = self.p
        if self.d == 1:
            return pow(a, -1, p)
        if self.d == 2:
            n = pow((a[0] * a[0] - self.nr * a[1] * a[1]) % p, -1, p)
            return (a[0] * n % p, (-a[1]) * n % p)
        nr = self.nr
        t0 = (a[0] * a[0] - nr * a[1] * a[2]) % p
        t1 = (nr * a[2] * a[2] - a[0] * a[1]) % p
        t2 = (a[1] * a[1] - a[0] * a[2]) % p
        n = pow((a[0] * t0 + nr * (a[2] * t1 + a[1] * t2)) % p, -1, p)
        return (t0 * n % p, t1 * n % p, t2 * n % p)

    def smul(self, k, a):
        return self.mul(self.el([k] + [0] * (self.d - 1)), a)

    def zero(self):
        return self.el([0] * self.d)


def ec_add(F, a, P, Q):
    if P is None:
        return Q
    if Q is None:
        return P
    (x1, y1), (x2, y2) = P, Q
    if x1 == x2:
        if F.add(y1, y2) == F.zero():
            return None
        lam = F.mul(F.add(F.smul(3, F.mul(x1, x1)), a), F.inv(F.smul(2, y1)))
    else:
        lam = F.mul(F.sub(y2, y1), F.inv(F.sub(x2, x1)))
    x3 = F.sub(F.sub(F.mul(lam, lam), x1), x2)
    return (x3, F.sub(F.mul(lam, F.sub(x1, x3)), y1))


def ec_mul(F, a, k, P):
    R = None
    for bit in bin(k)[2:] if k else '':
        R = ec_add(F, a, R, R)
        if bit == '1':
            R = ec_add(F, a, R, P)
    return R


class Curve:
    def __init__(self, e, prm):
        self.e, self.prm = e, prm
        p = prm['p']
        self.r = prm['r']
        self.fam = ENGINES[e][2]
        d = self.d2 = G2_DEG[self.fam]
        self.tdeg = TARGET_DEG[self.fam]
        self.F1 = Fld(p)
        self.F2 = Fld(p) if d == 1 else Fld(p, prm["tower"][1], d)
        self.a1 = self.F1.el(prm['ab1'][0:1])
        self.a2 = self.F2.el(prm['ab2'][0:d])
        self.G1 = (self.F1.el(prm['g1'][1:2]), self.F1.el(prm['g1'][2:3]))
        self.G2 = (self.F2.el(prm['g2'][1:1 + d]), self.F2.el(prm['g2'][1 + d:1 + 2 * d]))

    def g1(self, k):
        return ec_mul(self.F1, self.a1, k % self.r, self.G1)

    def g2(self, k):
        return ec_mul(self.F2, self.a2, k % self.r, self.G2)

    def g1_arg(self, s):
        P = self.g1(s)
        return [1, 0, 0] if P is None else [0, P[0], P[1]]

    def g2_arg(self, t):
        Q = self.g2(t)
        return [1] + [0] * (2 * self.d2) if Q is None else [0] + self.F2.co(Q[0]) + self.F2.co(Q[1])

    def pair_arg(self, s, t):
        return self.g1_arg(s) + self.g2_arg(t)

    def head(self):
        name, cid, fam, tag = ENGINES[self.e]
        prm = self.prm
        return [[self.e, cid, fam], prm['tower'], prm['fam'], prm['X'], prm['ate']]


def scalar(rng, r):
    """(value, class) from {0, 1, 2, r-1, random}"""
    k = rng.randrange(8)
    if k == 0:
        return 0, '0'
    if k == 1:
        return 1, '1'
    if k == 2:
        return 2, '2'
    if k == 3:
        return r - 1, 'r-1'
    return rng.randrange(1, r), 'rnd'


def nz_scalar(rng, r):
    while True:
        v, c = scalar(rng, r)
        if v:
            return v, c


# Special-case branches of the anchored Rust code and the generated class that executes each:
#   filter_map drops a pair when p.is_zero() || q.is_zero() .... idpat 'P0' (G1 identity), 'Q0' (G2 identity),
#       'PQ0' (both), lists made only of identity pairs ('all_identity'), ids interleaved at every position
#   empty `pairs` after the filter / empty input ............... 'n0', 'all_identity' (product of no chunk = one)
#   chunks(4): one partial chunk / exactly one / 4+1 / 4+4 / 4+4+1 .. n = 1, 3 / 4 / 5 / 8 / 9 surviving pairs
#   X_IS_NEGATIVE conjugation (Miller loop, exp_by_x, BN y-flip) .. engines 0, 10 (negative) vs 1, 2 (positive)
#   TwistType::M -> mul_by_014 / TwistType::D -> mul_by_034 .... engines 0, 10 (M) vs 1, 2 (D)
#   loop bit set / clear; BN digit 1 / -1 / 0 ................... every shipped constant has all of them
#   BN: two extra Frobenius-twisted lines after the chunk product  engine 2, every n (also n = 5, 9: across chunks)
#   G2Prepared::from identity -> { [], infinity } ............... g2_prepare 'Q0'
#   From<Projective> (into_affine), G1/G2Prepared::from, prepare_g1/g2 .. mode 1, 2, 3
#   final_exponentiation: f.inverse() == None -> None ........... final_exp 'zero'
#   cyclotomic_exp: zero shortcut unreachable after the easy part; NAF digits -1/0/1 of X: every final_exp
#   MNT4/MNT6: no filter; G2 identity = empty coefficient lists -> ate_miller_loop returns one (F18, fixed);
#       G1 identity goes through the loop with (0, 0) ......... 'mnt_g2_identity*', 'mnt_g1_identity', model-level
#       classes 'P0' / 'Q0' / both in every list position, lists 0..5, 'all_identity'
#   MNT ATE_LOOP_COUNT digit 1 / -1 / 0, ATE_IS_LOOP_COUNT_NEG tail (extra addition coefficient, inverse),
#       W0_IS_NEG ............................................... mnt4_298: (false, false), mnt6_298: (true, true)
#   MNT final_exponentiation: value.inverse()? == None ......... final_exp 'zero'
#   BW6: f_u computed in chunks of 4, f_1 / f_2 over all pairs with one accumulator (F17, fixed) ..
#       'bw6_ge5pairs*' (law level), model-level lists n = 0, 1, 4, 5 (quick), 0..9 (thorough)
#   BW6 ATE_LOOP_COUNT_2 digit 1 / -1 / 0 (f *= f_u / f_u_inv) ... every shipped constant has all of them
#   BW6 T_MOD_R_IS_ZERO false + hard-part override (bw6_761) / true + Algorithm 4.3 (bw6_767),
#       ATE_LOOP_COUNT_1_IS_NEGATIVE, X_IS_NEGATIVE false / true . engines 7 / 8 (8: thorough tier only)
#   BW6 final_exponentiation: f.inverse().unwrap() panics on 0 . not generated (outside the property's domain)
def gen(rng, tier):
    prm = load_params()
    quick = tier == 'quick'
    curves = {e: Curve(e, prm[e]) for e in MODELLED}

    # ---------------- model-level: multi_pairing (Miller loop + final exponentiation) ----------------
    lengths = [0, 1, 1, 3, 4, 5, 8, 9]
    reps = 5 if quick else 60
    for e in MODELLED:
        C = curves[e]
        tag = ENGINES[e][3]
        for _ in range(reps):
            for n in lengths:
                mode = rng.randrange(4)
                pairs, pat = [], []
                for i in range(n):
                    k = rng.randrange(10)
                    s, cs = nz_scalar(rng, C.r)
                    t, ct = nz_scalar(rng, C.r)
                    if k == 0:
                        s, cs = 0, 'P0'
                    elif k == 1:
                        t, ct = 0, 'Q0'
                    elif k == 2:
                        s, t, cs, ct = 0, 0, 'P0', 'Q0'
                    pairs.append(C.pair_arg(s, t))
                    pat.append(cs + ':' + ct)
                yield 'multi_pairing', C.head() + [[mode]] + pairs, '%s/n%d/mode%d/%s' % (tag, n, mode, ','.join(pat))
        # surviving-pair counts at the chunk thresholds, identities interleaved
        for n, ids in [(3, 1), (4, 1), (4, 3), (5, 1), (5, 4), (8, 2), (9, 3)] * (1 if quick else 6):
            slots = ['k'] * n + ['i'] * ids
            rng.shuffle(slots)
            pairs = []
            for sl in slots:
                s, _ = nz_scalar(rng, C.r)
                t, _ = nz_scalar(rng, C.r)
                if sl == 'i':
                    if rng.randrange(2):
                        s = 0
                    else:
                        t = 0
                pairs.append(C.pair_arg(s, t))
            yield 'multi_pairing', C.head() + [[0]] + pairs, '%s/survive%d/ids_interleaved%d' % (tag, n, ids)
        # all identity; cancelling pairs e(P,Q) e(-P,Q); equal pairs
        yield 'multi_pairing', C.head() + [[0]] + [C.pair_arg(0, 1), C.pair_arg(1, 0), C.pair_arg(0, 0)], tag + '/all_identity'
        s, _ = nz_scalar(rng, C.r)
        t, _ = nz_scalar(rng, C.r)
        yield 'multi_pairing', C.head() + [[0]] + [C.pair_arg(s, t), C.pair_arg(C.r - s, t)], tag + '/cancelling'
        yield 'multi_pairing', C.head() + [[2]] + [C.pair_arg(s, t), C.pair_arg(s, t)], tag + '/equal_pairs'
        yield 'multi_miller_loop', C.head() + [[0]] + [C.pair_arg(1, 1)], tag + '/generators'
        # ---------------- g2_prepare ----------------
        for t, ct in [(0, 'Q0'), (1, 'gen'), (2, '2'), (C.r - 1, 'r-1')] + [nz_scalar(rng, C.r) for _ in range(4 if quick else 40)]:
            yield 'g2_prepare', C.head() + [[0], C.g2_arg(t)], tag + '/' + ct
        # ---------------- final_exp on arbitrary field elements ----------------
        p = C.prm['p']
        els = [([0] * 12, 'zero'), ([1] + [0] * 11, 'one'), ([p - 1] + [0] * 11, 'minus_one'),
               ([rng.randrange(p)] + [0] * 11, 'prime_subfield'),
               ([rng.randrange(p) for _ in range(6)] + [0] * 6, 'c1_zero'),
               ([0] * 6 + [rng.randrange(p) for _ in range(6)], 'c0_zero')]
        els += [([rng.randrange(p) for _ in range(12)], 'dense') for _ in range(8 if quick else 120)]
        for v, cl in els:
            yield 'final_exp', C.head() + [[0], v], tag + '/' + cl


    # ---------------- model-level: MNT4 / MNT6 (no chunking, no filter) and BW6 ----------------
    small = MODELLED_SMALL['quick' if quick else 'thorough']
    bw6 = MODELLED_BW6['quick' if quick else 'thorough']
    for e in small + bw6:
        C = Curve(e, prm[e])
        tag = ENGINES[e][3] + ('' if e in (3, 5, 7) else '_big')
        is_bw6 = e in (7, 8)
        big = e in (4, 6, 7, 8)
        if is_bw6:
            lengths = [0, 1, 3, 4, 5, 8, 9] if quick else [0, 1, 2, 3, 4, 5, 7, 8, 9, 12, 13]
            reps = 1 if quick else 4
        else:
            lengths = [0, 1, 2, 3, 4, 5]
            reps = (8 if quick else 40) if not big else 4
        for _ in range(reps):
            for n in lengths:
                mode = rng.randrange(4)
                pairs, pat = [], []
                for i in range(n):
                    k = rng.randrange(10)
                    s, cs = nz_scalar(rng, C.r)
                    t, ct = nz_scalar(rng, C.r)
                    if k == 0:
                        s, cs = 0, 'P0'
                    elif k == 1:
                        t, ct = 0, 'Q0'
                    elif k == 2:
                        s, t, cs, ct = 0, 0, 'P0', 'Q0'
                    pairs.append(C.pair_arg(s, t))
                    pat.append(cs + ':' + ct)
                yield 'multi_pairing', C.head() + [[mode]] + pairs, '%s/n%d/mode%d/%s' % (tag, n, mode, ','.join(pat))
        # identity in either slot, alone and inside a list
        s, _ = nz_scalar(rng, C.r)
        t, _ = nz_scalar(rng, C.r)
        yield 'multi_pairing', C.head() + [[0]] + [C.pair_arg(0, t)], tag + '/single/P0'
        yield 'multi_pairing', C.head() + [[0]] + [C.pair_arg(s, 0)], tag + '/single/Q0'
        yield 'multi_pairing', C.head() + [[2]] + [C.pair_arg(0, 0)], tag + '/single/PQ0'
        yield 'multi_pairing', C.head() + [[0]] + [C.pair_arg(s, t), C.pair_arg(C.r - s, t)], tag + '/cancelling'
        yield 'multi_pairing', C.head() + [[2]] + [C.pair_arg(s, t), C.pair_arg(s, t)], tag + '/equal_pairs'
        if is_bw6:
            # surviving-pair counts at the chunk thresholds of the first loop, identities interleaved
            for n, ids in [(4, 1), (5, 2), (8, 1), (9, 2)] * (1 if quick else 3):
                slots = ['k'] * n + ['i'] * ids
                rng.shuffle(slots)
                pairs = []
                for sl in slots:
                    s2, _ = nz_scalar(rng, C.r)
                    t2, _ = nz_scalar(rng, C.r)
                    if sl == 'i':
                        if rng.randrange(2):
                            s2 = 0
                        else:
                            t2 = 0
                    pairs.append(C.pair_arg(s2, t2))
                yield 'multi_pairing', C.head() + [[0]] + pairs, '%s/survive%d/ids_interleaved%d' % (tag, n, ids)
        yield 'multi_pairing', C.head() + [[1]] + [C.pair_arg(s, 0), C.pair_arg(s, t), C.pair_arg(0, t)], tag + '/ids_around_one_pair'
        yield 'multi_pairing', C.head() + [[0]] + [C.pair_arg(0, 1), C.pair_arg(1, 0), C.pair_arg(0, 0)], tag + '/all_identity'
        yield 'multi_miller_loop', C.head() + [[0]] + [C.pair_arg(1, 1)], tag + '/generators'
        # g2_prepare / g1_prepare
        k = (3 if quick else 10) if big else (8 if quick else 40)
        for t, ct in [(0, 'Q0'), (1, 'gen'), (2, '2'), (C.r - 1, 'r-1')] + [nz_scalar(rng, C.r) for _ in range(k)]:
            yield 'g2_prepare', C.head() + [[0], C.g2_arg(t)], tag + '/' + ct
        if not is_bw6:
            for t, ct in [(0, 'P0'), (1, 'gen'), (C.r - 1, 'r-1')] + [nz_scalar(rng, C.r) for _ in range(k)]:
                yield 'g1_prepare', C.head() + [[0], C.g1_arg(t)], tag + '/' + ct
        # final_exp on arbitrary field elements (zero: MNT returns None; BW6 unwraps = outside the domain)
        p = C.prm['p']
        D = C.tdeg
        h = D // 2
        els = [([1] + [0] * (D - 1), 'one'), ([p - 1] + [0] * (D - 1), 'minus_one'),
               ([rng.randrange(1, p)] + [0] * (D - 1), 'prime_subfield'),
               ([rng.randrange(p) for _ in range(h)] + [0] * h, 'c1_zero'),
               ([0] * h + [rng.randrange(p) for _ in range(h)], 'c0_zero')]
        if not is_bw6:
            els = [([0] * D, 'zero')] + els
        nd = (3 if quick else 20) if big else (12 if quick else 120)
        els += [([rng.randrange(p) for _ in range(D)], 'dense') for _ in range(nd)]
        for v, cl in els:
            yield 'final_exp', C.head() + [[0], v], tag + '/' + cl

    # ---------------- law-level: every engine ----------------
    # quick tier: the three most expensive engines (mnt4_753, mnt6_753, bw6_767) get a minimal law-level set (one
    # bilinearity / additivity / order / prepared case, identities, one multi-pairing across the chunk border), so that a
    # change that only shows under THEIR constants (e.g. a negative first loop count: bw6_767) is still seen on every run
    law_engines = sorted(ENGINES)
    minimal = (4, 6, 8) if quick else ()
    for e in law_engines:
        r = prm[e]['r']
        tag = ENGINES[e][3]
        fam = ENGINES[e][2]
        big = e in (4, 6, 7, 8)
        k = (2 if quick else 12) if big else (5 if quick else 40)
        if e in minimal:
            k = 1
        yield 'generators_nondegenerate', [[e]], tag
        for _ in range(k):
            s, cs = nz_scalar(rng, r)
            t, ct = nz_scalar(rng, r)
            x, cx = scalar(rng, r)
            y, cy = scalar(rng, r)
            bcl = '%s/%s,%s,%s,%s' % (tag, cs, ct, cx, cy)
            if fam in (2, 3) and (x == 0 or y == 0):
                bcl = 'mnt_g2_identity_scalar0/' + bcl       # yQ or xQ is the G2 identity: F18
            yield 'bilinearity_check', [[e], [s, t, x, y]], bcl
            s2, cs2 = nz_scalar(rng, r)
            t2, ct2 = nz_scalar(rng, r)
            if rng.randrange(3) == 0:
                s2, cs2 = r - s, 'opposite'
            if rng.randrange(3) == 0:
                t2, ct2 = t, 'equal'
            acl = '%s/%s,%s,%s,%s' % (tag, cs, cs2, ct, ct2)
            if fam in (2, 3) and (t + t2) % r == 0:
                acl = 'mnt_g2_identity_sum/' + acl             # Q + Q' is the G2 identity: F18
            yield 'additivity_check', [[e], [s, s2, t, t2]], acl
            yield 'output_order_divides_r', [[e], [s, t]], '%s/%s,%s' % (tag, cs, ct)
            yield 'prepared_vs_unprepared', [[e], [s, t]], '%s/%s,%s' % (tag, cs, ct)
        # identity in the G1 slot (every family)
        s, _ = nz_scalar(rng, r)
        yield 'pairing_with_identity_is_one', [[e], [0, s]], ('mnt_g1_identity' if fam in (2, 3) else tag + '/P0')
        # identity in the G2 slot: MNT4/MNT6 panic (F18, known finding)
        yield 'pairing_with_identity_is_one', [[e], [s, 0]], ('mnt_g2_identity/' + tag if fam in (2, 3) else tag + '/Q0')
        yield 'pairing_with_identity_is_one', [[e], [0, 0]], ('mnt_g2_identity_both/' + tag if fam in (2, 3) else tag + '/PQ0')
        # identity in the form produced by deserializing a flagged, non-blank uncompressed buffer
        s2, _ = nz_scalar(rng, r)
        t2, _ = nz_scalar(rng, r)
        yield 'pairing_with_decoded_identity', [[e], [s2, t2], [rng.randrange(1, 256) for _ in range(7)]], tag + '/decoded_identity'
        # multi-pairing vs product of pairings
        ns = [0, 1, 3, 4, 5, 8, 9] if quick else [0, 1, 2, 3, 4, 5, 7, 8, 9, 12, 13] * 3
        if big and quick:
            ns = [0, 1, 4, 5, 9]
        if e in minimal:
            ns = [5]
        for n in ns:
            for with_ids in ([False] if n == 0 else [False, True]):
                ss, ts = [], []
                for i in range(n):
                    s, _ = nz_scalar(rng, r)
                    t, _ = nz_scalar(rng, r)
                    ss.append(s)
                    ts.append(t)
                extra = 0
                if with_ids:
                    if fam in (2, 3):
                        # MNT: only G1 identities here (G2 identities: the mnt_g2_identity class)
                        for j in range(1 + rng.randrange(2)):
                            pos = rng.randrange(len(ss) + 1)
                            ss.insert(pos, 0)
                            ts.insert(pos, nz_scalar(rng, r)[0])
                            extra += 1
                    else:
                        for j in range(1 + rng.randrange(3)):
                            pos = rng.randrange(len(ss) + 1)
                            which = rng.randrange(3)
                            ss.insert(pos, 0 if which != 1 else nz_scalar(rng, r)[0])
                            ts.insert(pos, 0 if which != 0 else nz_scalar(rng, r)[0])
                            extra += 1
                mode = rng.randrange(2)
                if fam == 4 and n >= 5:
                    cl = 'bw6_ge5pairs/n%d+%dids/mode%d' % (n, extra, mode)          # F17
                else:
                    cl = '%s/n%d+%dids/mode%d' % (tag, n, extra, mode)
                yield 'multi_pairing_vs_product', [[e], [mode], ss, ts], cl
        if fam in (2, 3):
            s, _ = nz_scalar(rng, r)
            yield 'multi_pairing_vs_product', [[e], [0], [s, 1], [1, 0]], 'mnt_g2_identity_in_list/' + tag   # F18


def nontrivial(case, out):
    if case['op'] in LAW_OPS:
        return True
    return len(case['args']) > 6 and any(any(x != 0 for x in a) for a in case['args'][6:])


def xcheck_ok(case):
    # a pairing is ~3*10^4 multiplications mod a 254..381-bit prime: minutes per case under vm_compute
    # on stdlib Z.  Only the law-level dispatch and the (cheap) MNT G1Prepared::from cases are re-evaluated in
    # the kernel (see NOTES.md).
    return case['op'] in LAW_OPS or case['op'] == 'g1_prepare'


XCHECK = {'quick': 14, 'thorough': 28}
RULE = ('model-level: engines bls12_381 (curves/ and test-curves/), bls12_377, bn254 x list lengths 0,1,3,4,5,8,9 x '
        'scalars {0,1,2,r-1,random} on both generators x identities interleaved x input forms (affine, projective, '
        'prepared, prepare_g1/g2); mnt4_298, mnt6_298 (753-bit variants: thorough) x lists 0..5 with the identity in either '
        'slot at every position; bw6_761 (bw6_767: thorough) x lists 0,1,3,4,5,8,9 and surviving-pair counts at the chunk '
        'thresholds; final_exp on zero/one/-1/subfield/half-zero/dense elements; g2_prepare / g1_prepare on '
        'identity/generator/multiples.  law-level: every engine x the same scalar classes.  non-trivial = law op, or '
        'some operand coordinate is non-zero; distinct = distinct case lines')
TRUSTED = ['input construction in prop.py (affine scalar multiples of the dumped generators): both sides receive the same points',
           'C02 tower model (coq/C02) for Fp2/Fp3/Fp4/Fp6/Fp12 arithmetic, C15 model of find_naf (imported, frozen)',
           'law-level ops: the relation is evaluated by the Rust public API (PairingOutput ==, +, *); the model side is the constant specification',
           'coq/C06/CurveConsts.v is generated by pre() from the dumped constants; the cofactor witnesses c in it are checked by the kernel (CurveFacts.v)']
ASSUMPTIONS = ['default features (no parallel): cfg_chunks_mut! = chunks_mut, cfg_into_iter! = into_iter',
               'prime-field arithmetic is Z mod p (C01 covers the Montgomery representation)']
HYPOTHESES = ['tate_additive_l / tate_additive_r (LawProofs.v): the mathematical reduced (optimal) ate pairing is additive in each '
              'argument (divisor theory / Weil reciprocity; not formalisable with the installed libraries); that the model value is '
              'this pairing is NOT proved (bilinear_partial)',
              'cgroup one mul inv U: commutative-group laws of the units of the target field (and of G1, G2 in LawProofs.v)',
              'cyclotomic-subgroup operation specifications conj_Cy, conj_U, cyc_sq_spec, frob_spec, expx_spec / exp_neg_x_spec / '
              'exp_w1_spec / exp_w0_spec / exp_m_spec / exp_d1_spec / exp_d2_spec, tsq_spec, tinv_spec, Cy closed under mul/inv: premises of the '
              'exponent-chain theorems incl. bw6_761_hard_exponent (C02: quad_cyclotomic_inverse_spec; gs_square_partial, frobenius_is_pow_partial, exp_loop_naf_spec)',
              'tmul_assoc, tmul_comm, tmul_1_l, tsq_is_mul, ell_is_mul (mul_by_014_is_mul / mul_by_034_is_mul), conj_mul, conj_one: '
              'field-arithmetic premises of the generic multi-equals-product theorems; DISCHARGED for the towers over Z_p in Tower12Zp.v / MntZp.v '
              '(C06_*_zp theorems: only fp2_consts_ok / fp6a_consts_ok / fp3_consts_ok on the constants remain, Example C06_ex_consts_zp)',
              'BW6 (Bw6Proofs.v): additionally frob1_mul, frob1_one (Frobenius is a ring endomorphism: C02 quad/cubic_frobenius_mul under the table '
              'conditions), cinv_mul, cinv_one (cyclotomic_inverse of a product of non-zero elements: no zero divisors, i.e. primality of p and '
              'irreducibility of the tower polynomials) -- field facts, not discharged']
