"""C07: FFT/IFFT over every evaluation domain = naive evaluation / interpolation.
Case generator + property metadata.

Case layout (see coq/C07/Run.v): [cfg_id] [p] [two_adicity, two_adic_root, q, q_adicity, large_root]
[kind, num_coeffs] ([] | [offset]) data.   kind 0 = Radix2, 1 = MixedRadix, 2 = General.
The FftField constants are computed HERE from (p, generator, small subgroup) exactly as
ff-macros does (g^t, g^(t / q^k)); the op `consts` compares them with the compiled crates.
"""
import sys
sys.path.insert(0, '/verif/lib')

OPS = {
    'consts': 1, 'get_root_of_unity': 2, 'new': 3, 'compute_size': 4,
    'fft': 6, 'ifft': 7, 'element': 8, 'elements': 9, 'vanishing': 10, 'lagrange': 11,
    'interpolate': 12, 'fft_naive': 13,
    # extension 3: the rest of the trait surface
    'reindex': 14, 'filter': 15, 'mul_evals': 16, 'sample_outside': 17, 'distribute': 18, 'bitrev_perm': 19,
}

# cfg_id -> (name, p, multiplicative generator, small_subgroup_base, small_subgroup_power)
FIELDS = {
    0: ('bls12_381_Fr', 52435875175126190479447740508185965837690552500527637822603658699938581184513, 7, 3, 1),
    1: ('bn384_small_two_adicity_Fq', 5945877603251831796258517492029536515488649313567122628447476625319762940580461319088175968449723373773214087057409, 7, 3, 2),
    2: ('bn384_small_two_adicity_Fr', 5945877603251831796258517492029536515488649313567122628445038208291596545947608789992834434053176523624102324539393, 5, 3, 2),
    3: ('secp256k1_Fr', 115792089237316195423570985008687907852837564279074904382605163141518161494337, 7, 0, 0),
    4: ('mnt4_753_Fr', 41898490967918953402344214791240637128170709919953949071783502921025352812571106773058893763790338921418070971888458477323173057491593855069696241854796396165721416325350064441470418137846398469611935719059908164220784476160001, 17, 5, 2),
    5: ('toy97', 97, 5, 0, 0),
    6: ('toy193', 193, 5, 0, 0),
    7: ('toy257', 257, 3, 0, 0),
    8: ('toy7681', 7681, 17, 0, 0),
    9: ('toyM3_10369', 10369, 13, 3, 3),
    10: ('toyM5_4001', 4001, 3, 5, 3),
    11: ('toyM7_7841', 7841, 12, 7, 2),
    12: ('toyM3_433', 433, 5, 3, 2),
    13: ('toy12289', 12289, 11, 0, 0),
}
TOY = [5, 6, 7, 8, 9, 10, 11, 12, 13]
TOY_R2 = [5, 6, 7, 8, 13]
MIXED = [0, 1, 2, 4, 9, 10, 11, 12]
BIG = [0, 1, 2, 3, 4]


class Fld:
    def __init__(self, cid):
        self.cid = cid
        self.name, self.p, self.g, self.q, self.qa = FIELDS[cid]
        p = self.p
        t, s = p - 1, 0
        while t % 2 == 0:
            t //= 2
            s += 1
        self.s, self.t = s, t
        self.root = pow(self.g, t, p)
        self.large = pow(self.g, t // (self.q ** self.qa), p) if self.q else 0
        self.consts = [s, self.root, self.q, self.qa, self.large]

    def head(self):
        return [[self.cid], [self.p], self.consts]

    # --- helpers used only to *choose inputs* (sizes that exist, points inside a domain) ---
    def radix2_sizes(self, maxlog):
        return [1 << k for k in range(0, min(self.s, maxlog) + 1)]

    def mixed_sizes(self, bound):
        out = []
        for t in range(self.qa + 1):
            for k in range(self.s + 1):
                n = (self.q ** t) << k
                if n <= bound:
                    out.append(n)
        return sorted(out)

    def gen_of(self, n):
        """generator of the order-n subgroup as get_root_of_unity derives it (input selection only)"""
        p = self.p
        if self.q:
            t, m = 0, n
            while m % self.q == 0 and m > 1:
                m //= self.q
                t += 1
            k = 0
            while m % 2 == 0 and m > 1:
                m //= 2
                k += 1
            w = self.large
            for _ in range(self.qa - t):
                w = pow(w, self.q, p)
            for _ in range(self.s - k):
                w = w * w % p
            return w
        k = n.bit_length() - 1
        w = self.root
        for _ in range(self.s - k):
            w = w * w % p
        return w


FL = {cid: Fld(cid) for cid in FIELDS}


def vec(rng, f, n, kind=None):
    """coefficient / evaluation vector of length n from structured classes"""
    p = f.p
    k = rng.randrange(10) if kind is None else kind
    if n == 0:
        return [], 'empty'
    if k == 0:
        return [0] * n, 'zeros'
    if k == 1:
        v = [0] * n
        v[rng.randrange(n)] = rng.randrange(1, p)
        return v, 'unit'
    if k == 2:
        return [p - 1] * n, 'all_p-1'
    if k == 3:
        c = rng.randrange(p)
        return [c] * n, 'const'
    if k == 4:
        # trailing zeros (top coefficients zero)
        m = rng.randrange(n + 1)
        return [rng.randrange(p) for _ in range(m)] + [0] * (n - m), 'trailing_zeros'
    if k == 5:
        return [rng.choice([0, 1, p - 1]) for _ in range(n)], 'small_set'
    return [rng.randrange(p) for _ in range(n)], 'dense'


def lens_for(rng, n):
    """input lengths on both sides of the degree-aware threshold len*4 <= n, plus the ends"""
    ls = {0, 1, n // 4, n // 4 + 1, n - 1, n, n // 2, rng.randrange(n + 1)}
    return sorted(l for l in ls if 0 <= l <= n)


def offsets_for(rng, f, n):
    """(offset arg, class): none, 1 (get_coset(1)), multiplicative generator, a domain element, random"""
    p = f.p
    w = f.gen_of(n)
    offs = [([], 'subgroup'), ([1], 'offset1'), ([f.g], 'offset_gen'), ([rng.randrange(1, p)], 'offset_rand')]
    if n >= 2:
        # offset^n = 1 but offset != 1: the coset IS the subgroup, rotated.  `offset.is_one()` must not be
        # replaced by `offset_pow_size.is_one()` (seeded change 6): ifft still has to un-rotate
        offs.append(([pow(w, rng.randrange(1, n), p)], 'offset_in_subgroup'))
        offs.append(([pow(w, n // 2 if n % 2 == 0 else 1, p)], 'offset_in_subgroup_-1_or_gen'))
    else:
        offs.append(([1], 'offset_in_subgroup'))
    # chains new(n).get_coset(h1).get_coset(h2): every call REPLACES the offset and must recompute offset_inv and
    # offset^n (a fast path for h2 = 1 on a domain that already is a coset would leave them stale)
    h = rng.randrange(2, p)
    offs.append(([h, 1], 'chain_h_then_1'))
    offs.append(([h, f.g], 'chain_h_then_gen'))
    offs.append(([1, h], 'chain_1_then_h'))
    return offs


def domain_points(rng, f, n, off):
    """evaluation points: inside the domain (first, last, random index), outside, zero"""
    p = f.p
    h = off[0] % p if off else 1
    w = f.gen_of(n)
    pts = [(h, 'tau=elem0'), (h * pow(w, n - 1, p) % p, 'tau=elem_last'),
           (h * pow(w, rng.randrange(n), p) % p, 'tau_in_domain'),
           (0, 'tau=0'), (rng.randrange(p), 'tau_rand'), (1, 'tau=1')]
    if h != 1:
        pts.append((pow(w, rng.randrange(n), p), 'tau_in_subgroup_not_coset'))
    for (t, c) in pts:
        assert not c.startswith('tau_in_domain') or pow(t * pow(h, -1, p), n, p) == 1
    return pts


def kinds_for(f, n):
    """(kind, num_coeffs) pairs yielding a domain of size n"""
    ks = []
    if n & (n - 1) == 0 and n.bit_length() - 1 <= f.s:
        ks += [0, 2]
    if f.q:
        ks.append(1)
        if n.bit_length() - 1 > f.s or n & (n - 1):
            pass
    return ks


def gen(rng, tier):
    thorough = tier != 'quick'
    maxlog_toy = 11 if thorough else 9
    # ---------------- constants (every field) ----------------
    for cid, f in FL.items():
        yield 'consts', f.head() + [[], [], []], f.name

    # ---------------- get_root_of_unity: both branches, every n on toy fields ----------------
    for cid in TOY:
        f = FL[cid]
        top = (1 << maxlog_toy) + 2 if not f.q else 4000
        for n in range(0, min(top, 2 * f.p)):
            # branch: LARGE_SUBGROUP_ROOT_OF_UNITY is Some (q-adicity / two-adicity bounds) or None (power-of-two test)
            yield 'get_root_of_unity', f.head() + [[n], [], []], f.name + ('/mixed' if f.q else '/pow2')
    for cid in BIG:
        f = FL[cid]
        ns = set()
        for k in range(0, f.s + 3):
            for t in range(0, 4):
                for d in (-1, 0, 1):
                    v = (3 ** t) * (1 << k) + d
                    if 0 <= v < 1 << 63:
                        ns.add(v)
        for n in sorted(ns):
            yield 'get_root_of_unity', f.head() + [[n], [], []], f.name + '/boundary'

    # ---------------- new / compute_size: every num_coeffs on toy fields, boundaries on big ones ----------------
    for cid, f in FL.items():
        if cid in TOY:
            top = (1 << maxlog_toy) + 2
            nums = list(range(0, top)) + [f.p, 1 << 20, (1 << 40) + 1]
            if f.q:
                nums += list(range(top, 4100 if thorough else 1200, 7))
        else:
            nums = set([0, 1, 2, 3, 5, 1000, (1 << 40) + 1])
            for k in range(0, min(f.s + 3, 50)):
                for t in range(0, 3):
                    for d in (-1, 0, 1):
                        nums.add(max(0, (3 ** t) * (1 << k) + d))
            nums = sorted(nums)
        for num in nums:
            for kind in (0, 1, 2):
                if kind == 1 and not f.q:
                    # OBSERVATION-1 (NOTES.md): MixedRadixEvaluationDomain::new on a field without
                    # SMALL_SUBGROUP_BASE panics (unwrap in best_mixed_domain_size) instead of
                    # returning None; outside the property's domain, not generated
                    continue
                cls = '%s/kind%d' % (f.name, kind)
                # branches: Radix2 None when log size > TWO_ADICITY; Mixed None when no size fits
                # (best = usize::MAX); General falls back to Mixed only when SMALL_SUBGROUP_BASE is Some
                yield 'new', f.head() + [[kind, num], [], []], cls
                yield 'compute_size', f.head() + [[kind, num], [], []], cls
    # get_coset on constructed domains: offset 0 (None), 1, generator, random
    for cid, f in FL.items():
        for num in (1, 2, 5, 8, 24, 64):
            for kind in (0, 1, 2):
                if kind == 1 and not f.q:
                    continue
                for off, oc in (([0], 'offset0_none'), ([1], 'offset1'), ([f.g], 'offset_gen'),
                                ([rng.randrange(f.p)], 'offset_rand'), ([f.p - 1], 'offset_-1')):
                    yield 'new', f.head() + [[kind, num], off, []], 'coset/' + oc

    # ---------------- transforms on toy fields: every domain size ----------------
    def sizes_of(f, bound_log):
        ss = [(n, k) for n in f.radix2_sizes(bound_log) for k in (0, 2)]
        if f.q:
            # every mixed size 2^s q^t of the field (partial theorem => exhaustive correspondence)
            ss += [(n, 1) for n in f.mixed_sizes(1 << (bound_log + (3 if thorough else 2)))]
            # General falls back to MixedRadix above the two-adicity
            ss += [(n, 2) for n in f.mixed_sizes(1 << (bound_log + 2)) if n > (1 << f.s) or (n & (n - 1))]
        return ss

    def num_for(rng, f, n, kind):
        """a num_coeffs that yields domain size n (sometimes below n to exercise the rounding in new)"""
        if kind in (0, 2) and n & (n - 1) == 0 and n >= 4 and rng.randrange(3) == 0 and not (kind == 2 and f.q):
            return n - rng.randrange(0, n // 2)
        return n

    def transform_cases(f, n, kind, dense_only=False):
        for off, oc in offsets_for(rng, f, n):
            for ln in lens_for(rng, n):
                # branches: len*4 <= size -> degree_aware_fft (bit-reversed placement, duplication,
                # oi from start_gap); else in_order_fft (io + derange); offset != 1 -> distribute_powers
                v, vc = vec(rng, f, ln, 9 if dense_only else None)
                side = 'degree_aware' if ln * 4 <= n else 'in_order'
                yield 'fft', f.head() + [[kind, num_for(rng, f, n, kind)], off, v], 'fft/%s/%s/kind%d/%s' % (oc, side, kind, vc)
            for ln in (n, n, n - 1, n // 2, 0):
                if ln < 0:
                    continue
                v, vc = vec(rng, f, ln)
                yield 'ifft', f.head() + [[kind, n], off, v], 'ifft/%s/kind%d/len%s/%s' % (oc, kind, '=n' if ln == n else '<n', vc)
            v, vc = vec(rng, f, n, rng.choice([0, 3, 4, 9]))
            # interpolate trims trailing zero coefficients (constant / zero evaluations)
            yield 'interpolate', f.head() + [[kind, n], off, v], 'interpolate/%s/kind%d/%s' % (oc, kind, vc)

    for cid in TOY:
        f = FL[cid]
        for (n, kind) in sizes_of(f, maxlog_toy):
            if n > 600 and not thorough and rng.randrange(3):
                # large mixed sizes: one third of them per quick run, all in thorough
                continue
            # thorough: several independent random data sets per (size, kind) for the small sizes
            for _ in range((6 if n <= 256 else 2) if thorough else 1):
                for c in transform_cases(f, n, kind):
                    yield c
            # model side = naive Horner evaluation at offset * gen^i (the specification)
            if n <= (1 << 9):
                for off, oc in offsets_for(rng, f, n)[:: (1 if n <= 64 else 2)]:
                    for ln in sorted({0, 1, n // 4, n // 4 + 1, n}):
                        v, vc = vec(rng, f, ln)
                        yield 'fft_naive', f.head() + [[kind, n], off, v], 'fft_naive/%s/kind%d/%s' % (oc, kind, vc)

    # ---------------- transforms on the shipped fields ----------------
    # sizes cross MIN_NUM_CHUNKS_FOR_COMPACTION = 2^7 (io: n >= 2^8, second compaction n >= 2^9;
    # oi: num_chunks >= 2^7 and gap < n/2) and MIN_INPUT_SIZE_FOR_PARALLELIZATION = 2^10 (n = 2^11+)
    big_logs = {0: [0, 1, 2, 3, 5, 7, 8, 9, 10, 11, 12] + ([13, 14] if thorough else []),
                1: list(range(0, 13)), 2: list(range(0, 13)),
                3: list(range(0, 8)), 4: [0, 1, 2, 4, 6, 8, 9] + ([11] if thorough else [])}
    for cid in BIG:
        f = FL[cid]
        ss = [(1 << k, kind) for k in big_logs[cid] if k <= f.s for kind in (0, 2)]
        if f.q:
            ss += [(n, 1) for n in f.mixed_sizes(1 << (12 if thorough else 10))]
            ss += [(n, 2) for n in f.mixed_sizes(1 << (12 if thorough else 10)) if n > (1 << f.s) or (n & (n - 1))]
        for (n, kind) in ss:
            big = n >= 1024
            offs = offsets_for(rng, f, n)
            if big:
                offs = [offs[0], offs[rng.randrange(1, len(offs))]]
            for off, oc in offs:
                lens = lens_for(rng, n)
                if big:
                    lens = sorted({n // 4, n // 4 + 1, n, rng.choice([0, 1, n - 1, n // 2])})
                for ln in lens:
                    v, vc = vec(rng, f, ln, 9 if big else None)
                    side = 'degree_aware' if ln * 4 <= n else 'in_order'
                    yield 'fft', f.head() + [[kind, n], off, v], 'fft/%s/%s/kind%d/%s' % (oc, side, kind, vc)
                for ln in ([n] if big else [n, n - 1, 0]):
                    if ln < 0:
                        continue
                    v, vc = vec(rng, f, ln, 9 if big else None)
                    yield 'ifft', f.head() + [[kind, n], off, v], 'ifft/%s/kind%d/%s' % (oc, kind, vc)
                if not big:
                    v, vc = vec(rng, f, n, rng.choice([0, 3, 4, 9]))
                    yield 'interpolate', f.head() + [[kind, n], off, v], 'interpolate/%s/kind%d/%s' % (oc, kind, vc)
                if n <= 64:
                    v, vc = vec(rng, f, rng.choice([n, n // 4, n // 4 + 1]))
                    yield 'fft_naive', f.head() + [[kind, n], off, v], 'fft_naive/%s/kind%d/%s' % (oc, kind, vc)

    # ---------------- element / elements / vanishing / lagrange ----------------
    for cid, f in FL.items():
        toy = cid in TOY
        ss = [(n, k) for n in f.radix2_sizes(maxlog_toy if toy else 7) for k in (0, 2)]
        if f.q:
            ss += [(n, 1) for n in f.mixed_sizes(600 if toy else 200)]
        for (n, kind) in ss:
            for off, oc in offsets_for(rng, f, n):
                head = f.head() + [[kind, n], off]
                if toy or n <= 256:
                    yield 'elements', head + [[]], 'elements/%s/kind%d' % (oc, kind)
                for i in sorted({0, 1, n - 1, n, n + 1, rng.randrange(n), rng.randrange(1 << 40)}):
                    # branch: offset == 1 skips the multiplication
                    yield 'element', head + [[i]], 'element/%s/kind%d' % (oc, kind)
                for (tau, tc) in domain_points(rng, f, n, off):
                    yield 'vanishing', head + [[tau]], 'vanishing/%s/%s' % (oc, tc)
                    if n <= (256 if toy else 64):
                        # branches: Z_H(tau) = 0 -> scan for the index (unit vector); else batch inversion
                        yield 'lagrange', head + [[tau]], 'lagrange/%s/%s' % (oc, tc)


    for c in gen_ext3(rng, tier):
        yield c


def general_sizes(f, r2bound_log, bound):
    """sizes n for which GeneralEvaluationDomain::new(n) has exactly n elements: powers of two within the
    two-adicity (Radix2 variant), and mixed sizes whose next power of two exceeds 2^TWO_ADICITY (MixedRadix variant)"""
    out = set(f.radix2_sizes(r2bound_log))
    if f.q:
        for n in f.mixed_sizes(bound):
            if (1 << (n - 1).bit_length()) > (1 << f.s):
                out.add(n)
    return sorted(out)


def divisors_in(sizes, n):
    return [m for m in sizes if n % m == 0]


def outside_point(rng, f, n, h):
    """a field element outside the coset h*<w_n> (input selection only)"""
    p = f.p
    hi = pow(h, -1, p)
    if n == p - 1:
        return 0   # the domain is the whole multiplicative group
    while True:
        t = rng.randrange(1, p)
        if pow(t * hi % p, n, p) != 1:
            return t


def gen_ext3(rng, tier):
    """reindex_by_subdomain, filter polynomial, pointwise product, sampling outside, distribute_powers,
    bitreverse_permutation_in_place"""
    thorough = tier != 'quick'
    maxlog_toy = 11 if thorough else 9
    # ---------------- reindex_by_subdomain: every (G, S) pair of every toy field, every index ----------------
    for cid in TOY:
        f = FL[cid]
        r2 = f.radix2_sizes(maxlog_toy)
        for kind in (0, 1, 2):
            if kind == 1 and not f.q:
                continue
            sizes = r2 if (kind == 0 or not f.q) else (f.mixed_sizes(1 << 62) if kind == 1 else general_sizes(f, maxlog_toy, 1 << 62))
            for n in sizes:
                for m in divisors_in(sizes, n):
                    # branches: index < |S| -> index * period; else i + i / (period - 1) + 1.  period = |G| / |S|
                    # is NOT 2^(log difference) for mixed-radix domains whose q-parts differ (seeded change 7)
                    qdiff = 'same_qpart' if not f.q or (n // m) & ((n // m) - 1) == 0 else 'qpart_differs'
                    yield 'reindex', f.head() + [[kind, n], [], [m]], 'reindex/all/kind%d/%s/%s' % (kind, qdiff, 'S=G' if m == n else ('S=1' if m == 1 else 'proper'))
            # cosets (the subdomain gets the same offset): element(reindex(i)) = subdomain.element(i) there too
            for n in sizes[-4:] + sizes[:3]:
                for m in divisors_in(sizes, n)[::2]:
                    yield 'reindex', f.head() + [[kind, n], [rng.randrange(1, f.p)], [m]], 'reindex/coset/kind%d' % kind
    for cid in BIG:
        f = FL[cid]
        for kind in (0, 1, 2):
            if kind == 1 and not f.q:
                continue
            r2 = f.radix2_sizes(12)
            sizes = r2 if (kind == 0 or not f.q) else (f.mixed_sizes(1 << 12) if kind == 1 else general_sizes(f, 12, 1 << 12))
            for n in sizes:
                for m in divisors_in(sizes, n):
                    if n <= 48:
                        yield 'reindex', f.head() + [[kind, n], [], [m]], 'reindex/big/all/kind%d' % kind
                    elif rng.randrange(3) == 0 or thorough:
                        idx = sorted({0, 1, m - 1, m % n, (m + 1) % n, n - 1, rng.randrange(n), rng.randrange(n),
                                      min(n - 1, m + (n // m - 1)), min(n - 1, m + (n // m - 1) - 1 if n // m > 1 else 0)})
                        yield 'reindex', f.head() + [[kind, n], [], [m] + idx], 'reindex/big/some/kind%d' % kind

    # ---------------- filter_polynomial / evaluate_filter_polynomial ----------------
    def filter_cases(f, kind, sizes, n, m, reps):
        p = f.p
        wG = f.gen_of(n)
        wS = f.gen_of(m)
        per = n // m
        for _ in range(reps):
            # G: the subgroup, or rotated by an element of G (offset^|G| = 1).
            # DEFECT-2 (NOTES.md): for a domain with offset^|G| != 1 filter_polynomial is not normalised
            # (its value on the subdomain is offset^|G|, evaluate_filter_polynomial says 1): not generated
            for offG, gc in (([], 'G_subgroup'), ([pow(wG, rng.randrange(1, n), p)] if n > 1 else [1], 'G_rotated')):
                js = {0, 1 % per, rng.randrange(n)} if not offG else {rng.randrange(n)}
                for j in sorted(js):
                    hS = pow(wG, j, p)
                    c = pow(hS, m, p)
                    sc = 'S_subgroup' if hS == 1 else ('S_coset_c=1' if c == 1 else 'S_coset')
                    taus = [(hS * pow(wS, rng.randrange(m), p) % p, 'tau_in_S'), (pow(wG, rng.randrange(n), p), 'tau_in_G'),
                            rng.choice([(hS, 'tau=S0'), (1, 'tau=1')])]
                    if c == 1:
                        taus += [rng.choice([(0, 'tau=0'), (outside_point(rng, f, n, 1), 'tau_outside_G')]), (rng.randrange(p), 'tau_rand')]
                    # else: DEFECT-1 (NOTES.md): evaluate_filter_polynomial omits the factor offset_S^|S| when the
                    # subdomain is a proper coset (offset_S^|S| != 1) and tau is outside G: those points not generated
                    for tau, tc in taus:
                        if c != 1 and pow(tau, n, p) != 1:
                            continue   # DEFECT-1
                        yield 'filter', f.head() + [[kind, n], offG, [m, hS, tau]], 'filter/kind%d/%s/%s/%s' % (kind, gc, sc, tc)
    for cid in TOY + BIG:
        f = FL[cid]
        top = (256 if thorough else 64) if cid in TOY else 32
        for kind in (0, 1, 2):
            if kind == 1 and not f.q:
                continue
            r2 = f.radix2_sizes(8)
            sizes = [x for x in (r2 if (kind == 0 or not f.q) else f.mixed_sizes(top)) if x <= top]
            if kind == 2 and f.q:
                sizes = [x for x in general_sizes(f, 8, 256) if x <= max(top, 256) and (x <= top or x & (x - 1))]
            for n in sizes:
                for m in divisors_in(sizes, n):
                    for c in filter_cases(f, kind, sizes, n, m, 2 if (thorough and cid in TOY) else 1):
                        yield c

    # ---------------- mul_polynomials_in_evaluation_domain, sample_element_outside_domain, distribute_powers ----------------
    for cid, f in FL.items():
        p = f.p
        ss = [(n, k) for n in f.radix2_sizes(6) for k in (0, 2)]
        if f.q:
            ss += [(n, 1) for n in f.mixed_sizes(100)]
        for (n, kind) in ss:
            for ln in sorted({0, 1, n // 2, n, n + 3}):
                x, xc = vec(rng, f, ln)
                y, yc = vec(rng, f, ln)
                yield 'mul_evals', f.head() + [[kind, n], [], x + y], 'mul_evals/%s*%s' % (xc, yc)
            for off, oc in offsets_for(rng, f, n):
                h = off[0] % p if off else 1
                w = f.gen_of(n)
                # model side: the first candidate with a non-zero vanishing value (candidates: two domain
                # points, then a point outside); Rust side: whatever the seeded rng draws.  Compared: the
                # result is not an element of the domain and its vanishing value is non-zero
                cands = [h * pow(w, rng.randrange(n), p) % p, h, outside_point(rng, f, n, h)]
                yield 'sample_outside', f.head() + [[kind, n], off, [rng.randrange(1 << 32)] + cands], 'sample_outside/%s' % oc
        for ln in (0, 1, 2, 5, 33):
            for g, gc in ((0, 'g=0'), (1, 'g=1'), (f.g, 'g=gen'), (rng.randrange(p), 'g_rand')):
                for c, cc in ((0, 'c=0'), (1, 'c=1'), (rng.randrange(p), 'c_rand')):
                    v, vc = vec(rng, f, ln)
                    yield 'distribute', f.head() + [[0, 1], [], [g, c] + v], 'distribute/%s/%s' % (gc, cc)
        for wd in range(0, 9 if thorough else 7):
            v, vc = vec(rng, f, 1 << wd, 9)
            yield 'bitrev_perm', f.head() + [[0, 1], [], [wd] + v], 'bitrev_perm/width%d' % wd


def _size_hint(case):
    a = case['args']
    return a[3][1] if len(a) > 3 and len(a[3]) > 1 else 0


def xcheck_ok(case):
    # vm_compute on stdlib Z: only toy fields and small domains in the kernel sample
    a = case['args']
    if a[0][0] not in TOY:
        return case['op'] in ('consts',)
    if case['op'] in ('get_root_of_unity', 'new', 'compute_size', 'consts'):
        return _size_hint(case) < (1 << 30) if case['op'] != 'get_root_of_unity' else True
    return _size_hint(case) <= 48


def nontrivial(case, out):
    a = case['args']
    if case['op'] in ('consts', 'get_root_of_unity', 'new', 'compute_size', 'elements', 'element', 'reindex', 'sample_outside'):
        return True
    return len(a) > 5 and any(x != 0 for x in a[5])


XCHECK = {'quick': 160, 'thorough': 600}
RULE = ('fields: bls12_381 Fr, bn384_small_two_adicity Fq/Fr (mixed radix), secp256k1 Fr (two-adicity 6), mnt4_753 Fr, '
        'toy fields p = 97, 193, 257, 7681 and mixed-radix toys (q = 3, 5, 7); every domain size of the toy fields up to '
        '2^9 (quick) / 2^11 (thorough), every mixed size 2^s q^t; input lengths 0, 1, n/4, n/4+1, n/2, n-1, n, random; offsets none, '
        '1, generator, domain element, random; points first/last/random domain element, 0, 1, random; '
        'reindex_by_subdomain: every (G, S) pair with |S| dividing |G| of every toy field and kind, every index < |G| (shipped fields: '
        '|G| <= 48 all indices, larger ones boundary indices); filter polynomial: every such pair up to |G| = 64 (256 thorough), S a subgroup '
        'or a coset inside G, G a subgroup or rotated, tau in S / in G / outside; pointwise product, sampling outside, distribute_powers, '
        'bitreverse_permutation_in_place; '
        'non-trivial = a constructor/element/reindex case or some data element non-zero; distinct = distinct case lines')
TRUSTED = ['root-of-unity table of io_helper/oi_helper and its compaction are modelled by their values (powers of root^num_chunks)',
           'in-place swap loops (derange, degree-aware placement, mixed-radix cycle following) are modelled by the index maps they realise',
           'field arithmetic of the compiled crates is taken from C01 (here: ZpOps p)']
ASSUMPTIONS = ['default features (serial code paths; the parallel ones are C14)', 'num_coeffs < 2^63 (no usize overflow in next_power_of_two)',
               'input no longer than the domain',
               'reindex_by_subdomain: |other| divides |self|, index < |self|',
               'filter polynomial: the subdomain is a coset contained in self and self.offset^|self| = 1 (DEFECT-2); '
               'evaluate_filter_polynomial with subdomain.offset^|subdomain| != 1 only at points of self (DEFECT-1)',
               'sample_element_outside_domain: only the predicate "the result is outside the domain" is compared (the rng stream is not modelled)']
HYPOTHESES = ['is_field F: field_theory of the dictionary operations with Leibniz equality (abstract field; explicit premise of every theorem, not a section axiom)',
              'eqb_correct F: feqb decides equality',
              'prim_root F k omega: omega^(2^(k-1)) = -1, i.e. omega is a primitive 2^k-th root of unity',
              'C07_ifft_fft_id: gen*gen_inv = 1, offset*offset_inv = 1, 2^k*size_inv = 1 (what the constructor stores; implies odd characteristic)',
              'C07_get_root_of_unity_pow2: the configured TWO_ADIC_ROOT_OF_UNITY has exact order 2^TWO_ADICITY (configuration fact, C16)',
              'mixed-radix theorems: n = 2^s q^t with q odd >= 3, omega^n = 1 and omega^(n/2) = -1 when s >= 1 (what get_root_of_unity returns for a '
              'configuration whose LARGE_SUBGROUP_ROOT_OF_UNITY has exact order 2^S q^qa: C07_get_root_large_pow_n/_pow_half, configuration fact C16)',
              'C07_dft_inverse, C07_mixed_ifft_fft_id, Lagrange theorems: the generator has exact order n (gen^n = 1, gen^i <> 1 for 0 < i < n), '
              'offset <> 0, n*1 <> 0 in the field, stored inverses are inverses, d_size_fe = n*1, d_offset_pow_size = offset^n (what the constructors store)',
              'C07_reindex_by_subdomain_spec: |other| = n >= 1, |self| = n m, m >= 1; C07_reindex_element: gen_S = gen_G^m and equal offsets '
              '(what get_root_of_unity gives for the two sizes; tied by the correspondence lists of the reindex op)',
              'C07_divide_with_q_and_r_spec: the divisor is a non-empty coefficient list with non-zero leading coefficient; '
              'C07_filter_polynomial_spec: sizes >= 1, |self| * 1 <> 0 in the field',
              'C07_get_root_large_*: L^(2^S q^qa) = 1, L^(2^(S-1) q^qa) = -1 for the configured large-subgroup root (configuration fact, C16)']


# pinned theorems that instantiate this package's abstract-field theorems at the executed ZpOps dictionary
EXTRA_PROP_FILES = ['Bridge', 'Bridge2']
