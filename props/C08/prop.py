"""C08: univariate polynomial arithmetic (dense, sparse, mixes, division, vanishing
polynomial, evaluation domains).  Case generator + property metadata.

Case layout: args[0] = [modulus]; dense polynomial = coefficient list (canonical: no
trailing zero); sparse polynomial = flat list [d0, c0, d1, c1, ...] (degrees ascending,
coefficients non-zero); domain = [n, h, g] (size, coset offset, group generator of the
radix-2 domain of that size).  All operands are canonical except for the *_from_vec ops,
whose job is to canonicalise.
"""
import sys
sys.path.insert(0, '/verif/lib')

OPS = {
    'd_from_vec': 1, 'd_evaluate': 2, 'd_add': 3, 'd_add_assign': 4, 'd_add_assign_scaled': 5,
    'd_neg': 6, 'd_sub': 7, 'd_sub_assign': 8, 'd_scale': 9, 'd_naive_mul': 10, 'd_mul': 11,
    'd_div': 12,
    's_from_vec': 20, 's_evaluate': 21, 's_add': 22, 's_add_assign': 23, 's_add_assign_scaled': 24,
    's_neg': 25, 's_sub_assign': 26, 's_scale': 27, 's_mul': 28, 's_to_dense': 29,
    'd_to_sparse': 30, 's_add_owned': 31,
    'd_add_sparse': 40, 'd_add_assign_sparse': 41, 'd_sub_sparse': 42, 'd_sub_assign_sparse': 43,
    'divide_dd': 50, 'divide_ds': 51, 'divide_sd': 52, 'divide_ss': 53,
    'mul_by_vanishing': 60, 'divide_by_vanishing': 61,
    'd_eval_domain_ref': 70, 'd_eval_domain_owned': 71, 's_eval_domain': 72,
    'interpolate': 73, 'interpolate_by_ref': 74, 'roundtrip': 75,
    'ev_add': 80, 'ev_sub': 81, 'ev_mul': 82, 'ev_scale': 83, 'ev_div': 84,
}

R = 0x73eda753299d7d483339d80809a1d80553bda402fffe5bfeffffffff00000001   # bls12_381 Fr
# modulus -> (multiplicative generator configured in the harness, two-adicity)
FIELDS = {5: (2, 2), 7: (3, 1), 97: (5, 5), R: (7, 32)}


def group_gen(p, n):
    gen, _ = FIELDS[p]
    return pow(gen, (p - 1) // n, p)


def max_domain(p):
    return 1 << min(FIELDS[p][1], 6)


# ------------------------------------------------------------------ reference arithmetic
# (used only to BUILD correlated operands, never to judge results)

def canon(c, p):
    c = [x % p for x in c]
    while c and c[-1] == 0:
        c.pop()
    return c


def padd(a, b, p):
    n = max(len(a), len(b))
    return canon([(a[i] if i < len(a) else 0) + (b[i] if i < len(b) else 0) for i in range(n)], p)


def pscale(a, f, p):
    return canon([x * f for x in a], p)


def pneg(a, p):
    return pscale(a, p - 1, p)


def pmul(a, b, p):
    if not a or not b:
        return []
    r = [0] * (len(a) + len(b) - 1)
    for i, x in enumerate(a):
        for j, y in enumerate(b):
            r[i + j] = (r[i + j] + x * y) % p
    return canon(r, p)


def to_sparse(a):
    s = []
    for i, c in enumerate(a):
        if c:
            s += [i, c]
    return s


def sparse_to_dense(s, p):
    if not s:
        return []
    r = [0] * (max(s[0::2]) + 1)
    for d, c in zip(s[0::2], s[1::2]):
        r[d] = (r[d] + c) % p
    return canon(r, p)


def felem(rng, p):
    k = rng.randrange(8)
    if k == 0:
        return 0
    if k == 1:
        return 1
    if k == 2:
        return p - 1
    if k == 3:
        return rng.randrange(min(p, 4))
    return rng.randrange(p)


def nz(rng, p):
    k = rng.randrange(5)
    if k == 0:
        return 1
    if k == 1:
        return p - 1
    return rng.randrange(1, p)


def rpoly(rng, p, ln):
    """canonical polynomial with exactly ln coefficients"""
    if ln <= 0:
        return []
    k = rng.randrange(4)
    if k == 0:     # mostly zeros inside
        c = [rng.randrange(p) if rng.randrange(4) == 0 else 0 for _ in range(ln - 1)]
    else:
        c = [rng.randrange(p) for _ in range(ln - 1)]
    return c + [nz(rng, p)]


def poly(rng, p, maxlen=8):
    """(polynomial, class)"""
    k = rng.randrange(10)
    if k == 0:
        return [], 'zero'
    if k == 1:
        return [nz(rng, p)], 'const'
    if k == 2:
        return rpoly(rng, p, 2), 'deg1'
    if k == 3:
        ln = rng.randrange(1, maxlen + 1)
        return [0] * (ln - 1) + [nz(rng, p)], 'monomial'
    return rpoly(rng, p, rng.randrange(1, maxlen + 1)), 'rand'


def partner(rng, p, a, maxlen=8):
    """second operand correlated with a: (q, class)"""
    k = rng.randrange(13)
    low = rpoly(rng, p, rng.randrange(0, max(1, len(a))))          # degree strictly below a's
    if k == 0:
        return [], 'zero'
    if k == 1:
        return list(a), 'equal'
    if k == 2:
        return pneg(a, p), 'negated'
    if k == 3:
        return padd(a, low, p), 'equal+low'            # same leading terms: a - q cancels
    if k == 4:
        return padd(pneg(a, p), low, p), 'negated+low'  # a + q cancels the leading terms
    if k == 5 and a:
        q = rpoly(rng, p, len(a)); q[-1] = a[-1]
        return q, 'same_lead'
    if k == 6 and a:
        q = rpoly(rng, p, len(a)); q[-1] = (p - a[-1]) % p
        return q, 'opposite_lead'
    if k == 7:
        return [nz(rng, p)], 'const'
    if k == 8:
        return rpoly(rng, p, len(a) + 1), 'one_longer'
    if k == 9 and len(a) > 1:
        return rpoly(rng, p, len(a) - 1), 'one_shorter'
    if k == 10 and len(a) > 1:
        # agrees with a on the top half: cancellation of several leading terms
        h = len(a) // 2
        return canon(rpoly(rng, p, h)[:h] + a[h:], p), 'same_top_half'
    q, c = poly(rng, p, maxlen)
    return q, c


def rsparse(rng, p, maxdeg=40, maxterms=5):
    k = rng.randrange(8)
    if k == 0:
        return [], 'szero'
    if k == 1:
        return [0, nz(rng, p)], 'sconst'
    if k == 2 and maxdeg >= 1:
        return [rng.randrange(1, maxdeg + 1), nz(rng, p)], 'smonomial'
    t = rng.randrange(1, maxterms + 1)
    ds = sorted(rng.sample(range(0, maxdeg + 1), min(t, maxdeg + 1)))
    s = []
    for d in ds:
        s += [d, nz(rng, p)]
    return s, 'srand'


def spartner(rng, p, a):
    """sparse operand correlated with the dense polynomial a"""
    k = rng.randrange(12)
    d = len(a) - 1
    if k == 0:
        return [], 'szero'
    if k == 1:
        return to_sparse(a), 's=dense'
    if k == 2:
        return to_sparse(pneg(a, p)), 's=-dense'
    if k == 3 and a:
        return [d, a[-1]], 's_lead_same'                 # dense - sparse cancels the lead
    if k == 4 and a:
        return [d, (p - a[-1]) % p], 's_lead_opposite'   # dense + sparse cancels the lead
    if k == 5 and a:
        # low-degree terms plus a term that hits the leading coefficient (same or opposite)
        lo = to_sparse(rpoly(rng, p, rng.randrange(0, len(a))))
        return lo + [d, rng.choice([a[-1], (p - a[-1]) % p])], 's_low+lead'
    if k == 6:
        return [max(0, d) + rng.randrange(1, 6), nz(rng, p)], 's_above'
    if k == 7 and d >= 1:
        return [rng.randrange(0, d), nz(rng, p)], 's_below'
    if k == 8:
        s = to_sparse(rpoly(rng, p, max(1, d + 1)))
        return s + [d + 1 + rng.randrange(4), nz(rng, p)], 's_mixed_above'
    if k == 9 and a:
        # cancels the top two terms on subtraction
        s = []
        if d >= 1 and a[d - 1]:
            s += [d - 1, a[d - 1]]
        return s + [d, a[-1]], 's_top2_same'
    return rsparse(rng, p, maxdeg=max(3, 2 * d + 3))


POINTS = lambda rng, p: rng.choice([0, 1, p - 1, 2 % p, rng.randrange(p), rng.randrange(p)])


def fields_for(rng):
    return rng.choice([5, 7, 97, 97, R, R, R])


def dom_fields(rng):
    return rng.choice([5, 97, 97, R, R])


def domain(rng, p):
    n = 1 << rng.randrange(0, max_domain(p).bit_length())
    g = group_gen(p, n)
    k = rng.randrange(6)
    if k <= 1:
        h, c = 1, 'h=1'
    elif k == 2:
        h, c = p - 1, 'h=-1'                  # h^n = 1 for even n although h != 1
    elif k == 3:
        h, c = FIELDS[p][0], 'h=gen'
    else:
        h, c = rng.randrange(2, p) if p > 3 else 2, 'h=rand'
    return [n, h % p, g], n, 'n%d/%s' % (n, c)


def lens_around(rng, n):
    return rng.choice([0, 1, 2, n - 1, n, n + 1, 2 * n - 1, 2 * n, 2 * n + 1, 3 * n - 1, 3 * n, 3 * n + 1,
                       rng.randrange(0, 3 * n + 3)])


# ---------------------------------------------------------------------------------------
# Branch map: every special-case branch of the anchored Rust code and the generated class
# that executes it (class strings are "<first operand class>/<second operand class>").
#  dense.rs
#   degree(): is_zero -> 0 | assert last != 0          every result (harness prints degree())
#   evaluate: is_zero | point 0 | Horner               d_evaluate x POINTS (0 included), 'zero'
#   from_coefficients_vec: pop loop, assert            d_from_vec (trailing zeros, all_zero, empty)
#   Add &d+&d: self 0 | other 0 | deg>= | deg<         d_add: zero/*, */zero, one_shorter, one_longer;
#        truncation after cancel                       negated, negated+low, opposite_lead
#   AddAssign &d: other 0 | self 0 | longer | else     d_add_assign, same classes
#   AddAssign (f,&d): other 0 | self 0 (f=0 -> trunc)  d_add_assign_scaled: */zero, zero/*, f=0 x zero (F06),
#        | deg< resize | cancel                        one_longer, 'cancelling' (b = -a/f + low)
#   Sub &d-&d: self 0 | other 0 | deg>= | deg<         d_sub: zero/*, */zero, equal, equal+low, same_lead, one_longer
#   SubAssign &d: self 0 | other 0 | deg>= | deg<      d_sub_assign, same classes
#   Mul<F>: is_zero | elem 0 | map                     d_scale x felem (0, 1, -1, small, random)
#   naive_mul / Mul: zero operands | loop              d_naive_mul, d_mul: zero/*, const, rand (+ F5 exhaustive)
#   Add &d+&s: self 0 -> into | other 0 | in-range     d_add_sparse: zero/*, */szero, s_below, s=dense,
#        get_mut | extend+push | truncate              s_above, s_mixed_above, s_lead_opposite (cancels)
#   AddAssign &s: other 0 | self 0 | pow<=lhs | pow>   d_add_assign_sparse, same classes
#   Sub &d-&s / SubAssign &s: self 0 | other 0 |       d_sub_sparse, d_sub_assign_sparse: zero/*, */szero,
#        upper_coeffs (other deg > lhs) | in-range |   s_above, s_mixed_above, s_below, s_lead_same, s_top2_same,
#        leading term cancels (F05)                    s=dense; 0 -= s0 excluded (DEFECT-1)
#   mul_by_vanishing_poly                              len<n, <=2n, >2n x h=1 / h=-1 / gen / rand (F07)
#   divide_by_vanishing_poly: len<n | loop 0 times |   len<n, len in [n,2n) , >2n (loop runs), multiple_of_vanishing
#        loop >= 1 times (cur_pow = c^i)               with coset offsets (F07)
#  sparse.rs
#   degree(), evaluate: zero | table of bitlen(deg)    s_evaluate with maxdeg in {0,1,2,3,7,8,15,16,17,63,64,100}
#   Add: self 0 | other 0 | Less | Equal (sum 0 /      s_add/s_add_owned/s_add_assign: negated (all cancel), negated+low,
#        non-0) | Greater | append self | append other  opposite_lead, equal, stretch (disjoint supports), srand
#   AddAssign (f,&s) (F03), SubAssign (F02)            s_add_assign_scaled f in {0,1,-1,rand}; s_sub_assign
#   Mul<F>, Neg                                        s_scale, s_neg
#   mul: zero | BTreeMap and_modify / or_insert |      s_mul: (1+x)(1-x)-type cancellations are in the F5 exhaustive
#        filter zero sums (F04)                        set and 'negated'/'same_top_half' partners
#   from_coefficients_vec: retain | sort | assert      s_from_vec: shuffled, zero entries anywhere, repeated degrees
#   From<Sparse> for Dense, From<Dense> for Sparse     s_to_dense, d_to_sparse (+ every zero-operand branch above)
#  mod.rs
#   divide_with_q_and_r: self 0 | deg< | loop          divide_xx: zero, lower_degree, same_degree, multiple (r = 0),
#        (dense / sparse on both sides)                multiple+rem, vs_vanishing (sparse x^n - c divisor), const divisor
#   eval_over_domain_helper: sparse | dense zero |     s_eval_domain; d_eval_domain_{ref,owned}: len 0, <=n (one chunk,
#        one chunk | several chunks, offset 1 /        possibly shorter than n), <=2n, >2n x h=1 / h!=1
#        offset != 1, Borrowed / Owned
#  evaluations/univariate/mod.rs
#   interpolate / interpolate_by_ref                   zero_evals, const_evals (truncation), short_vector, rand_evals
#   + - * / (and -assign), * F                         ev_*: felem entries include 0 (division by zero entry, O6)
# ---------------------------------------------------------------------------------------

DENSE_BIN = ['d_add', 'd_add_assign', 'd_sub', 'd_sub_assign', 'd_naive_mul', 'd_mul']
SPARSE_BIN = ['s_add', 's_add_owned', 's_add_assign', 's_sub_assign', 's_mul']
MIXED = ['d_add_sparse', 'd_add_assign_sparse', 'd_sub_sparse', 'd_sub_assign_sparse']
DIVS = ['divide_dd', 'divide_ds', 'divide_sd', 'divide_ss']


def fft_mul_ok(p, a, b):
    """&a * &b builds a domain of size >= len a + len b - 1: inside the field's 2-adicity?"""
    if not a or not b:
        return True
    need = len(a) + len(b) - 1
    return need <= (1 << FIELDS[p][1])


def is_defect1(op, a, s):
    # DEFECT-1: `dense -= &sparse` with both operands zero leaves coeffs = [0]
    return op == 'd_sub_assign_sparse' and not a and not s


def all_polys(p, maxlen):
    out = [[]]
    def rec(prefix, ln):
        if len(prefix) == ln:
            if prefix[-1] != 0:
                out.append(list(prefix))
            return
        for c in range(p):
            rec(prefix + [c], ln)
    for ln in range(1, maxlen + 1):
        rec([], ln)
    return out


def exhaustive_f5(tier):
    """all pairs of canonical polynomials of length <= 3 over F_5, every binary operator"""
    p = 5
    P3 = all_polys(p, 3)
    P2 = all_polys(p, 2)
    left = P3
    for a in left:
        sa = to_sparse(a)
        for b in P3:
            sb = to_sparse(b)
            for op in ['d_add', 'd_add_assign', 'd_sub', 'd_sub_assign', 'd_naive_mul']:
                yield op, [[p], a, b], 'F5-exhaustive'
            if fft_mul_ok(p, a, b):
                yield 'd_mul', [[p], a, b], 'F5-exhaustive'
            for op in ['s_add', 's_sub_assign', 's_mul']:
                yield op, [[p], sa, sb], 'F5-exhaustive'
            for op in MIXED:
                yield op, [[p], a, sb], 'F5-exhaustive'
            if b:
                yield 'divide_dd', [[p], a, b], 'F5-exhaustive'
                yield 'divide_ss', [[p], sa, sb], 'F5-exhaustive'
    for a in P2:
        for b in P2:
            for f in range(p):
                yield 'd_add_assign_scaled', [[p], a, [f], b], 'F5-exhaustive'
                yield 's_add_assign_scaled', [[p], to_sparse(a), [f], to_sparse(b)], 'F5-exhaustive'


def gen(rng, tier):
    scale = 1 if tier == 'quick' else 30
    yield from exhaustive_f5(tier)

    # ---- dense (op) dense on correlated operands: every branch of Add/Sub/AddAssign/SubAssign
    # (self zero / other zero / deg >= / deg <), truncation after cancellation
    for _ in range(2500 * scale):
        p = fields_for(rng)
        a, ca = poly(rng, p)
        b, cb = partner(rng, p, a)
        if rng.randrange(2):
            a, b = b, a
            ca, cb = cb + "'", ca + "'"
        op = rng.choice(DENSE_BIN)
        if op == 'd_mul' and not fft_mul_ok(p, a, b):
            op = 'd_naive_mul'
        yield op, [[p], a, b], ca + '/' + cb
    # ---- scaled add: f in {0, 1, -1, random}; q chosen so that p + f q cancels
    for _ in range(900 * scale):
        p = fields_for(rng)
        a, ca = poly(rng, p)
        f = rng.choice([0, 1, p - 1, rng.randrange(p), rng.randrange(1, p)])
        k = rng.randrange(4)
        if k == 0 and f:
            # b = -a / f + low  =>  a + f b has low degree (or is zero)
            finv = pow(f, p - 2, p)
            low = rpoly(rng, p, rng.randrange(0, max(1, len(a))))
            b = padd(pscale(a, (p - finv) % p, p), low if rng.randrange(2) else [], p)
            cb = 'cancelling'
        else:
            b, cb = partner(rng, p, a)
        yield 'd_add_assign_scaled', [[p], a, [f], b], '%s/f=%s/%s' % (ca, 'rand' if f not in (0, 1, p - 1) else {0: '0', 1: '1'}.get(f, '-1'), cb)
        yield 's_add_assign_scaled', [[p], to_sparse(a), [f], to_sparse(b)], 'sparse:%s/%s' % (ca, cb)
    # ---- unary dense
    for _ in range(500 * scale):
        p = fields_for(rng)
        a, ca = poly(rng, p)
        op = rng.choice(['d_neg', 'd_scale', 'd_evaluate', 'd_to_sparse'])
        if op == 'd_scale':
            yield op, [[p], a, [felem(rng, p)]], ca
        elif op == 'd_evaluate':
            yield op, [[p], a, [POINTS(rng, p)]], ca      # zero poly / point 0 / general branches
        else:
            yield op, [[p], a], ca
    # ---- from_coefficients_vec on raw vectors (trailing zeros, all zeros, empty)
    for _ in range(300 * scale):
        p = fields_for(rng)
        a, ca = poly(rng, p)
        raw = list(a) + [0] * rng.choice([0, 0, 1, 2, 5])
        if rng.randrange(6) == 0:
            raw = [0] * rng.randrange(0, 5); ca = 'all_zero'
        yield 'd_from_vec', [[p], raw], ca
    # ---- sparse (op) sparse
    for _ in range(1500 * scale):
        p = fields_for(rng)
        k = rng.randrange(4)
        if k == 0:
            sa, ca = rsparse(rng, p)
            sb, cb = rsparse(rng, p)
        else:
            a, ca = poly(rng, p, 7)
            b, cb = partner(rng, p, a, 7)
            sa, sb = to_sparse(a), to_sparse(b)
            if k == 1:
                # stretch the degrees (same pattern, sparser support)
                m = rng.randrange(2, 6)
                sa = [x * m if i % 2 == 0 else x for i, x in enumerate(sa)]
                sb = [x * m if i % 2 == 0 else x for i, x in enumerate(sb)]
                ca += '*stretch'
        yield rng.choice(SPARSE_BIN), [[p], sa, sb], ca + '/' + cb
    for _ in range(500 * scale):
        p = fields_for(rng)
        sa, ca = rsparse(rng, p, maxdeg=rng.choice([0, 1, 2, 3, 7, 8, 15, 16, 17, 63, 64, 100]))
        op = rng.choice(['s_neg', 's_scale', 's_evaluate', 's_to_dense'])
        if op == 's_scale':
            yield op, [[p], sa, [felem(rng, p)]], ca
        elif op == 's_evaluate':
            # degree 0 (no table entry needed), powers of two and neighbours (table length)
            yield op, [[p], sa, [POINTS(rng, p)]], ca
        else:
            yield op, [[p], sa], ca
    # ---- sparse from_coefficients_vec: distinct degrees, non-zero coefficients, any order,
    # optionally followed by trailing zero-coefficient entries (which are popped)
    for _ in range(200 * scale):
        p = fields_for(rng)
        sa, ca = rsparse(rng, p, maxdeg=20, maxterms=6)
        prs = list(zip(sa[0::2], sa[1::2]))
        rng.shuffle(prs)
        flat = [x for pr in prs for x in pr]
        if rng.randrange(3) == 0:
            used = set(sa[0::2])
            for _k in range(rng.randrange(1, 3)):
                d = rng.randrange(0, 30)
                if d not in used and (not prs or d > max(used)):
                    used.add(d)
                    flat += [d, 0]
            ca += '/trailing_zero_entries'
        yield 's_from_vec', [[p], flat], ca
    # ---- from_coefficients_vec on ANY raw list: zero-coefficient entries anywhere (first, interior, last, of the
    # largest degree so that they sort last), repeated degrees (stable sort: original order kept), all-zero lists
    for _ in range(300 * scale):
        p = fields_for(rng)
        n = rng.randrange(1, 8)
        kind = rng.choice(['zeros_anywhere', 'zero_sorts_last', 'repeated_degrees', 'all_zero', 'mixed'])
        ds = rng.sample(range(0, 25), n) if kind != 'repeated_degrees' else [rng.randrange(0, 4) for _ in range(n)]
        cs = [nz(rng, p) for _ in range(n)]
        if kind in ('zeros_anywhere', 'mixed'):
            for i in range(n):
                if rng.randrange(3) == 0:
                    cs[i] = 0
        if kind == 'zero_sorts_last':
            cs[ds.index(max(ds))] = 0
        if kind == 'all_zero':
            cs = [0] * n
        if kind == 'mixed':
            ds = [rng.choice(ds) for _ in range(n)]
        flat = [x for pr in zip(ds, cs) for x in pr]
        yield 's_from_vec', [[p], flat], 'sraw/' + kind
    # ---- dense (op) sparse: sparse degree above / below / equal, cancelling leading term,
    # zero operands on either side
    for _ in range(2000 * scale):
        p = fields_for(rng)
        a, ca = poly(rng, p)
        s, cs = spartner(rng, p, a)
        op = rng.choice(MIXED)
        yield op, [[p], a, s], ca + '/' + cs
    # ---- division: deg a < deg b, equal degrees, exact multiples, constants, monic and
    # non-monic divisors, sparse divisors of vanishing shape, zero dividend
    for _ in range(1500 * scale):
        p = fields_for(rng)
        b, cb = poly(rng, p, 6)
        if not b:
            b, cb = [nz(rng, p)], 'const'
        k = rng.randrange(7)
        if k == 0:
            a, ca = [], 'zero'
        elif k == 1:
            c, _ = poly(rng, p, 6)
            a, ca = pmul(b, c, p), 'multiple'
        elif k == 2:
            c, _ = poly(rng, p, 6)
            r = rpoly(rng, p, rng.randrange(0, len(b)))
            a, ca = padd(pmul(b, c, p), r, p), 'multiple+rem'
        elif k == 3:
            a, ca = rpoly(rng, p, len(b)), 'same_degree'
        elif k == 4:
            a, ca = rpoly(rng, p, max(0, len(b) - 1)), 'lower_degree'
        elif k == 5:
            n = rng.choice([1, 2, 4, 8])
            b, cb = [(p - nz(rng, p)) % p or 1] + [0] * (n - 1) + [1], 'x^n-c'
            a, ca = rpoly(rng, p, rng.choice([n - 1, n, n + 1, 2 * n, 2 * n + 1, 3 * n + 1])), 'vs_vanishing'
        else:
            a, ca = poly(rng, p, 12)
        op = rng.choice(DIVS + ['d_div'])
        x = a if op in ('divide_dd', 'divide_ds', 'd_div') else to_sparse(a)
        y = b if op in ('divide_dd', 'divide_sd', 'd_div') else to_sparse(b)
        yield op, [[p], x, y], ca + '/' + cb
    # ---- vanishing polynomial of a domain / coset: lengths around n, 2n, 3n; exact multiples
    for _ in range(1200 * scale):
        p = dom_fields(rng)
        d, n, cd = domain(rng, p)
        k = rng.randrange(4)
        if k == 0:
            c, _ = poly(rng, p, 2 * n + 2)
            hn = pow(d[1], n, p)
            van = [(p - hn) % p] + [0] * (n - 1) + [1] if n > 0 else [1]
            if n == 1:
                van = [(p - hn) % p, 1]
            a, ca = pmul(van, c, p), 'multiple_of_vanishing'
        else:
            ln = lens_around(rng, n)
            a, ca = rpoly(rng, p, ln), 'len%s' % ('<n' if ln < n else ('<=2n' if ln <= 2 * n else '>2n'))
        yield rng.choice(['mul_by_vanishing', 'divide_by_vanishing']), [[p], a, d], cd + '/' + ca
    # ---- evaluation over domains and cosets: inputs shorter than / equal to / longer than
    # the domain (folding modulo X^n - h^n, offset = 1 and offset != 1 branches), zero input
    for _ in range(1200 * scale):
        p = dom_fields(rng)
        d, n, cd = domain(rng, p)
        ln = lens_around(rng, n)
        a = rpoly(rng, p, ln)
        ca = 'len%s' % ('0' if ln == 0 else ('<=n' if ln <= n else ('<=2n' if ln <= 2 * n else '>2n')))
        op = rng.choice(['d_eval_domain_ref', 'd_eval_domain_owned', 'roundtrip', 's_eval_domain'])
        if op == 's_eval_domain':
            yield op, [[p], to_sparse(a), d], cd + '/' + ca
        else:
            yield op, [[p], a, d], cd + '/' + ca
    # ---- LARGE transforms (bls12_381 Fr): the radix-2 code changes shape with the size -- roots cache (n >= 2^7), table
    # compaction (n >= 2^8), degree-aware path with a compacted first round (padded length >= 256 inside n >= 1024) -- and
    # FFT-based multiplication reaches those sizes for ordinary operands (200 x 700 coefficients)
    p = R
    for n, lns in ((256, [33, 64, 65, 256]), (1024, [129, 200, 256, 257, 1024, 2049]), (2048, [300, 512])):
        g = group_gen(p, n)
        for h, ch in ((1, 'h=1'), (FIELDS[p][0], 'h=gen')):
            for ln in (lns if scale > 1 else lns[:3] if n == 1024 else lns[:1]):
                a = rpoly(rng, p, ln)
                op = rng.choice(['d_eval_domain_ref', 'd_eval_domain_owned', 'roundtrip'])
                yield op, [[p], a, [n, h % p, g]], 'large/n%d/%s/len%d' % (n, ch, ln)
    for la, lb in ([(200, 700)] if scale == 1 else [(200, 700), (129, 129), (300, 1000), (64, 193)]):
        yield 'd_mul', [[p], rpoly(rng, p, la), rpoly(rng, p, lb)], 'large/mul/%dx%d' % (la, lb)
    for _ in range(600 * scale):
        p = dom_fields(rng)
        d, n, cd = domain(rng, p)
        k = rng.randrange(5)
        if k == 0:
            e, ce = [0] * n, 'zero_evals'
        elif k == 1:
            e, ce = [nz(rng, p)] * n, 'const_evals'       # interpolates to a constant: truncation
        elif k == 2:
            e, ce = [rng.randrange(p) for _ in range(rng.randrange(0, n + 1))], 'short_vector'
        else:
            e, ce = [rng.randrange(p) for _ in range(n)], 'rand_evals'
        yield rng.choice(['interpolate', 'interpolate_by_ref']), [[p], e, d], cd + '/' + ce
    for _ in range(500 * scale):
        p = dom_fields(rng)
        d, n, cd = domain(rng, p)
        x = [felem(rng, p) for _ in range(n)]
        y = [felem(rng, p) for _ in range(n)]
        op = rng.choice(['ev_add', 'ev_sub', 'ev_mul', 'ev_div', 'ev_scale'])
        if op == 'ev_scale':
            yield op, [[p], x, [felem(rng, p)], d], cd
        else:
            yield op, [[p], x, y, d], cd


def nontrivial(case, out):
    return any(len(a) > 0 and any(v != 0 for v in a) for a in case['args'][1:])


def xcheck_ok(case):
    a = case['args']
    big = a[0][0] > 1000
    tot = sum(len(x) for x in a[1:])
    return tot <= (24 if big else 60)


RULE = ('exhaustive: all pairs of canonical polynomials of length <= 3 over F_5 for every binary operator (dense, '
        'sparse, mixed, division) and all (p, f, q) with length <= 2 for the scaled adds; structured: operand '
        'classes (zero, constant, degree 1, monomial, sparse-inside, random) x correlated partners (equal, negated, '
        'equal/negated + low-degree perturbation, same/opposite leading coefficient, one longer/shorter, same top '
        'half, constant, zero) x fields F_5, F_7, F_97, bls12_381 Fr; sparse operands with degree above / below / '
        'equal to the dense one and cancelling leading terms; f in {0, 1, -1, random}; dividends that are '
        'multiples / multiples + remainder / same degree / lower degree; domain sizes 1..2^k with offsets 1, -1, '
        'generator, random and input lengths around n, 2n, 3n; non-trivial = some operand non-zero')
XCHECK = {'quick': 400, 'thorough': 2000}
TRUSTED = ['the forward / inverse transforms are SPECIFIED in the model (values at h g^i; inverse-DFT formula), the '
           'FFT algorithms themselves are property C07',
           'field arithmetic of the harness fields (Fp64 Montgomery for 5, 7, 97; bls12_381 Fr) is property C01; '
           'the model computes in Z mod p']
ASSUMPTIONS = ['default features (serial code paths of cfg_iter_mut!), dev profile with debug assertions',
               'degrees of sparse polynomials are small enough to be unary naturals in the model (< 2^10 in generated cases)']
HYPOTHESES = ['Fth: field_theory of the dictionary operations', 'eqb_ok: feqb decides equality']

# pinned theorems that instantiate this package's abstract-field theorems at the executed ZpOps dictionary
EXTRA_PROP_FILES = ['Bridge2']
