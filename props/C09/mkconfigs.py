#!/usr/bin/env python3
"""One-off: dump the compiled configuration constants through the harness (`dump` / `f_dump`
ops of harness/src/bin/c09.rs) into props/C09/configs.json.  The harness re-checks these
constants against the compiled ones in every case, so a stale table shows up as a mismatch."""
import subprocess, json
BIN = '/verif/build/target/debug/c09'
def parse(line):
    return [[] if t == '_' else [int(x, 16) for x in t.split(',')] for t in line.split(' ')]
curves = {}
ids = [0, 1, 2, 3, 4, 5, 6, 7, 8, 9, 10, 11, 12, 13, 14, 15, 16, 17, 20, 21, 22, 23, 24, 25, 26, 27, 28, 29, 30, 31, 32, 33]
out = subprocess.run([BIN], input=''.join('0:dump %x\n' % i for i in ids), capture_output=True, text=True).stdout.splitlines()
for i, l in zip(ids, out):
    r = parse(l)
    assert r[0] == [0], (i, l)
    curves[i] = {'p': r[1][0], 'deg': r[1][1], 'N': r[1][2], 'nr': r[2], 'a': r[3], 'b': r[4], 'r': r[5][0],
                 'gx': r[6], 'gy': r[7], 'h': r[8][0], 'kind': 'te' if i >= 20 else 'sw'}
fields = {}
towers = {0: [1], 1: [1], 2: [1], 3: [1], 4: [1], 5: [1], 6: [1], 7: [1], 8: [1], 9: [1], 10: [1], 11: [1, 2, 6, 12],
          12: [1, 3], 13: [1, 2, 6, 12], 14: [1, 2, 4], 15: [1], 16: [1], 17: [1], 18: [1, 3, 32], 19: [1], 20: [1],
          21: [1], 22: [1], 23: [1], 24: [1], 25: [1], 26: [1]}
# towers defined in c09.rs over base fields whose top byte cannot hold the flags (constants: mkext.py)
for i, ts in {0: [2, 6], 1: [2], 2: [2, 3, 4, 6, 32], 5: [2, 3], 6: [2, 4, 6], 7: [2, 3], 8: [2, 3, 4, 32], 9: [2, 3, 4],
              10: [2, 3, 6], 15: [2], 16: [2], 17: [2, 6], 23: [2], 25: [2], 26: [2]}.items():
    towers[i] = towers[i] + ts
lines, keys = [], []
for i, ts in towers.items():
    for t in ts:
        lines.append('0:f_dump %x _ %x\n' % (i, t)); keys.append((i, t))
out = subprocess.run([BIN], input=''.join(lines), capture_output=True, text=True).stdout.splitlines()
for (i, t), l in zip(keys, out):
    r = parse(l)
    assert r[0] == [0], (i, t, l)
    f = fields.setdefault(i, {'p': r[1][0], 'N': r[1][1], 'towers': {}})
    assert f['p'] == r[1][0]
    f['towers'][t] = r[1][2]
json.dump({'curves': curves, 'fields': fields}, open('/verif/props/C09/configs.json', 'w'), indent=1, sort_keys=True)
print(len(curves), 'curves', len(fields), 'fields')
