#!/usr/bin/env python3
"""One-off: derive the constants of the twisted-Edwards configurations that harness/src/bin/c09.rs
defines itself (curve ids 24..29): base fields whose MODULUS_BIT_SIZE is a multiple of 8, so that the
x-sign flag of a compressed point does not fit into the top byte of y.

All curves are *complete* (a a square, d a non-square), so the affine addition law of the model never
meets a zero denominator and the subgroup test r*P = O agrees with the projective formulas of the code
on every curve point.
  24  F_251                 (8 bit)    generic (a, d), #E counted by enumeration, #E = 4 r
  25  F_65521               (16 bit)   generic (a, d), #E counted by enumeration, #E = 4 r
  26  F_18446744073709551557 (64 bit)  generic (a, d), #E by baby-step/giant-step in the Hasse interval
  27  a new 128-bit prime p = 3 mod 4 with (p+1)/4 prime: x^2 + y^2 = 1 - x^2 y^2 is supersingular, #E = p+1 = 4 r
  28  secp256k1 base field (256 bit, p = 3 mod 4): x^2 + y^2 = 1 - x^2 y^2, #E = p + 1 (not factored: formal r)
  29  a new 256-bit prime p = 3 mod 4 with (p+1)/4 prime, same curve, #E = 4 r
Prints Rust constants; the numbers were pasted into c09.rs (the harness re-checks a, d, r against the
case in every run, and `dump` + mkconfigs.py read gx, gy, h back from the compiled configuration)."""
import random, math, sys

rng = random.Random(9)


def is_prime(n):
    if n < 2:
        return False
    for q in (2, 3, 5, 7, 11, 13, 17, 19, 23, 29, 31, 37):
        if n % q == 0:
            return n == q
    d, s = n - 1, 0
    while d % 2 == 0:
        d //= 2; s += 1
    for a in (2, 3, 5, 7, 11, 13, 17, 19, 23, 29, 31, 37):
        x = pow(a, d, n)
        if x in (1, n - 1):
            continue
        for _ in range(s - 1):
            x = x * x % n
            if x == n - 1:
                break
        else:
            return False
    return True


def leg(a, p):
    a %= p
    return 0 if a == 0 else (1 if pow(a, (p - 1) // 2, p) == 1 else -1)


def sqrt_p(a, p):
    a %= p
    if a == 0:
        return 0
    if leg(a, p) != 1:
        return None
    if p % 4 == 3:
        return pow(a, (p + 1) // 4, p)
    q, s = p - 1, 0
    while q % 2 == 0:
        q //= 2; s += 1
    z = 2
    while leg(z, p) != -1:
        z += 1
    m, c, t, r = s, pow(z, q, p), pow(a, q, p), pow(a, (q + 1) // 2, p)
    while t != 1:
        i, t2 = 0, t
        while t2 != 1:
            t2 = t2 * t2 % p; i += 1
        b = pow(c, 1 << (m - i - 1), p)
        m, c = i, b * b % p
        t, r = t * c % p, r * b % p
    return r


class TE:
    def __init__(self, p, a, d):
        self.p, self.a, self.d = p, a % p, d % p

    def add(self, P, Q):
        p = self.p
        x1, y1 = P; x2, y2 = Q
        k = self.d * x1 * x2 * y1 * y2 % p
        return ((x1 * y2 + y1 * x2) * pow(1 + k, -1, p) % p, (y1 * y2 - self.a * x1 * x2) * pow(1 - k, -1, p) % p)

    def mul(self, k, P):
        if k < 0:
            return self.mul(-k, ((-P[0]) % self.p, P[1]))
        R = (0, 1)
        while k:
            if k & 1:
                R = self.add(R, P)
            P = self.add(P, P)
            k >>= 1
        return R

    def point(self):
        p = self.p
        while True:
            y = rng.randrange(p)
            den = (self.a - self.d * y * y) % p
            x = sqrt_p((1 - y * y) * pow(den, -1, p), p)
            if x is not None and x != 0:
                return (x, y)

    def count(self):
        """#E by enumeration over y (complete curve: no points at infinity)"""
        p, n = self.p, 0
        for y in range(p):
            den = (self.a - self.d * y * y) % p
            n += 1 + leg((1 - y * y) * pow(den, -1, p), p)
        return n

    def order_bsgs(self):
        """#E from the Hasse interval: find all k, |k| <= 2 sqrt p, with (p+1+k) P = O; repeat with new
        points until a single candidate is left"""
        p = self.p
        w = 2 * math.isqrt(p) + 2
        m = math.isqrt(2 * w) + 1
        cands = None
        for _ in range(6):
            P = self.point()
            baby, R = {}, (0, 1)
            for j in range(m):
                baby.setdefault(R, j)
                R = self.add(R, P)
            # (p + 1 - w + i m + j) P = O  <=>  (p + 1 - w + i m) P = -j P
            S = self.mul(p + 1 - w, P)
            step = self.mul(m, P)
            found = set()
            for i in range(2 * w // m + 2):
                neg = ((-S[0]) % p, S[1])
                if neg in baby:
                    found.add(p + 1 - w + i * m + baby[neg])
                S = self.add(S, step)
            found = {n for n in found if abs(n - p - 1) <= w}
            cands = found if cands is None else cands & found
            if len(cands) == 1:
                return cands.pop()
        return None


def search(p, counter):
    while True:
        s = rng.randrange(2, p)
        a = s * s % p
        d = rng.randrange(2, p)
        if leg(d, p) != -1 or a == d:
            continue
        E = TE(p, a, d)
        n = counter(E)
        if n and n % 4 == 0 and is_prime(n // 4):
            return E, n, 4


def finish(name, E, n, h):
    p, r = E.p, n // h
    while True:
        G = E.mul(h, E.point())
        if G != (0, 1):
            break
    assert E.mul(r, G) == (0, 1) and (E.a * G[0] ** 2 + G[1] ** 2 - 1 - E.d * G[0] ** 2 * G[1] ** 2) % p == 0
    A = 2 * (E.a + E.d) * pow(E.a - E.d, -1, p) % p
    B = 4 * pow(E.a - E.d, -1, p) % p
    print('// %s: p = %d (%d bits), #E = %d = %d * r' % (name, p, p.bit_length(), n, h))
    print('//   a = %d  d = %d  r = %d (%d bits)\n//   G = (%d, %d)\n//   montgomery A = %d B = %d  h^-1 mod r = %d'
          % (E.a, E.d, r, r.bit_length(), G[0], G[1], A, B, pow(h, -1, r)))


def rho(n):
    if n % 2 == 0:
        return 2
    while True:
        c, x = rng.randrange(1, n), rng.randrange(n)
        y, d, k = x, 1, 0
        while d == 1 and k < 400000:
            x = (x * x + c) % n; y = (y * y + c) % n; y = (y * y + c) % n
            d = math.gcd(abs(x - y), n); k += 1
        if 1 < d < n:
            return d
        if k >= 400000:
            return None


def main():
    E, n, h = search(251, TE.count); finish('T8', E, n, h)
    E, n, h = search(65521, TE.count); finish('T16', E, n, h)
    E, n, h = search(18446744073709551557, TE.order_bsgs); finish('T64', E, n, h)
    p = (1 << 128) - 1
    while not (p % 4 == 3 and is_prime(p) and is_prime((p + 1) // 4)):
        p -= 2
    finish('T128', TE(p, 1, -1), p + 1, 4)
    p = (1 << 256) - 1
    while not (p % 4 == 3 and is_prime(p) and is_prime((p + 1) // 4)):
        p -= 2
    finish('T256b', TE(p, 1, -1), p + 1, 4)
    # secp256k1 base field: #E = p + 1 = 2^4 * 3 * ... * (a 230-bit composite this script cannot factor), so no
    # prime-order subgroup is established: ScalarField is *formally* the secp256k1 scalar field and COFACTOR = 1;
    # "in the subgroup" then means r_formal * P = O on both sides (false for every point but the identity)
    p = 2 ** 256 - 2 ** 32 - 977
    assert p % 4 == 3
    E = TE(p, 1, -1)
    G = E.point()
    assert E.mul(p + 1, G) == (0, 1)
    print('// T256: p = %d, #E = p + 1, a = 1, d = %d\n//   G = (%d, %d) (an arbitrary curve point)' % (p, p - 1, G[0], G[1]))

main()
