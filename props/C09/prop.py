"""C09: serialization round-trips at the advertised size; field encodings are unique.
Case generator + property metadata.  The byte strings of the decode-side stream are
*inputs* built here (valid encodings, then mutated); what they decode to is decided by the
Rust code and by the Coq model only."""
import sys, os, json
sys.path.insert(0, '/verif/lib')

OPS = {'f_ser_flags': 1, 'f_ser_plain': 2, 'f_de_flags': 3, 'f_de_plain': 4,
       'sw_ser': 5, 'sw_de': 6, 'te_ser': 7, 'te_de': 8, 'f_cmp': 9}

CFG = json.load(open(os.path.join(os.path.dirname(os.path.abspath(__file__)), 'configs.json')))
FIELDS = {int(k): {'p': v['p'], 'N': v['N'], 'towers': {int(t): d for t, d in v['towers'].items()}}
          for k, v in CFG['fields'].items()}
CURVES = {int(k): v for k, v in CFG['curves'].items()}

FLAGBITS = {0: 0, 1: 2, 2: 1}
FLAGMASKS = {0: [0], 1: [0, 64, 128], 2: [0, 128]}          # mask of flag code i
SMALL_FIELDS = [i for i, f in FIELDS.items() if f['p'] < (1 << 64)]


def fsize(p, ft):
    return (p.bit_length() + FLAGBITS[ft] + 7) // 8


def le(v, n):
    return [(v >> (8 * i)) & 255 for i in range(n)]


def enc_fp(p, v, ft, fc):
    n = fsize(p, ft)
    b = le(v, n)
    b[-1] |= FLAGMASKS[ft][fc]
    return b


def enc_ext(p, coords, ft, fc):
    out = []
    for c in coords[:-1]:
        out += enc_fp(p, c, 0, 0)
    return out + enc_fp(p, coords[-1], ft, fc)


def fval(rng, p):
    """a base-field value from the boundary classes"""
    bits = p.bit_length()
    k = rng.randrange(12)
    if k == 0:
        return 0, 'zero'
    if k == 1:
        return 1, 'one'
    if k == 2:
        return p - 1, 'p-1'
    if k == 3:
        return p - 2, 'p-2'
    if k == 4:
        return (p - 1) // 2, 'half'
    if k == 5:
        return (p + 1) // 2, 'half+1'
    if k == 6:
        return (1 << (bits - 1)) % p, 'top_bit'
    if k == 7:
        e = 8 * rng.randrange(1, (bits + 7) // 8 + 1)
        return ((1 << e) - 1) % p, 'bytes_ff'
    if k == 8:
        e = 64 * rng.randrange(0, (bits + 63) // 64)
        return ((1 << e) + rng.choice([-1, 0, 1])) % p, 'limb_boundary'
    if k == 9:
        return rng.randrange(256) % p, 'small'
    return rng.randrange(p), 'dense'


def field_head(fid, ft, x, y=0):
    f = FIELDS[fid]
    return [fid, f['N'], ft, x, y]


def mutate_fp_bytes(rng, p, ft, bs, off):
    """bs: valid encoding; the prime-field element that carries the flags starts at bs[off].
    Returns (bytes, class).  Branches of Fp::deserialize_with_flags:
      short read -> IoError; from_u8 None -> UnexpectedFlags (SW both bits); extra-byte remainder
      -> InvalidData (the F15 repair); integer >= p -> InvalidData; success."""
    n = len(bs) - off
    bits = p.bit_length()
    k = rng.randrange(16)
    b = list(bs)
    if k <= 3:
        # every single bit of the last two bytes
        bit = rng.randrange(16 if n >= 2 else 8)
        b[len(b) - 1 - bit // 8] ^= 1 << (bit % 8)
        return b, 'bitflip_last2/%d' % bit
    if k <= 6:
        v = rng.choice([p, p + 1, (1 << bits) - 1, p - 1, (1 << (8 * n)) - 1, 1 << bits, (1 << bits) + 1])
        v &= (1 << (8 * n)) - 1
        nb = le(v, n)
        cls = 'int_ge_p'
        if rng.randrange(2):
            # all flag combinations on top (top two / one bits of the last byte)
            top = rng.choice([0, 64, 128, 192, 32, 16])
            nb[-1] |= top
            cls += '+top%x' % top
        return b[:off] + nb, cls
    if k == 7:
        top = rng.choice([0, 64, 128, 192])
        b[-1] = (b[-1] & 63) | top
        return b, 'flag_combo%x' % top
    if k == 8:
        cut = rng.choice([0, 1, len(b) - 1, len(b) - 1, off, max(0, len(b) - 8), rng.randrange(len(b))])
        return b[:cut], 'truncated'
    if k == 9:
        return b + [rng.randrange(256) for _ in range(rng.randrange(1, 12))], 'valid+trailing'
    if k == 10:
        return [rng.randrange(256) for _ in range(len(b))], 'random_bytes'
    if k == 11:
        # non-flag bits of the byte that holds the flags (stray bits)
        spare = 8 * n - bits
        if spare > 0:
            bit = rng.randrange(8)
            b[-1] |= 1 << bit
            return b, 'stray_bit%d' % bit
        return b, 'valid'
    if k == 12 and off > 0:
        # damage an earlier coordinate of an extension element
        i = rng.randrange(off)
        b[i] ^= 1 << rng.randrange(8)
        return b, 'bitflip_inner'
    if k == 13 and off > 0:
        c = fsize(p, 0)
        j = rng.randrange(off // c)
        v = rng.choice([p, (1 << bits) - 1, (1 << (8 * c)) - 1])
        b[j * c:(j + 1) * c] = le(v & ((1 << (8 * c)) - 1), c)
        return b, 'inner_ge_p'
    return b, 'valid'


def gen_fields(rng, scale):
    fids = sorted(FIELDS)
    # ---- encode side ----
    for fid in fids:
        f = FIELDS[fid]
        p = f['p']
        for tw, deg in sorted(f['towers'].items()):
            reps = (6 if p < (1 << 130) else 3) * scale
            for ft in (0, 1, 2):
                for fc in range(len(FLAGMASKS[ft])):
                    for _ in range(reps):
                        cs, cl = zip(*[fval(rng, p) for _ in range(deg)])
                        yield 'f_ser_flags', [field_head(fid, ft, fc), [p], [tw], list(cs)], \
                            'enc/ft%d/bits%%8=%d/tw%d/%s' % (ft, p.bit_length() % 8, tw, cl[-1])
            for comp in (0, 1):
                for _ in range(2 * scale):
                    cs, cl = zip(*[fval(rng, p) for _ in range(deg)])
                    yield 'f_ser_plain', [field_head(fid, 0, comp), [p], [tw], list(cs)], 'enc_plain/tw%d/%s' % (tw, cl[-1])
    # ---- decode side ----
    for fid in fids:
        f = FIELDS[fid]
        p = f['p']
        for tw, deg in sorted(f['towers'].items()):
            reps = (40 if tw == 1 else 14) * scale
            for ft in (0, 1, 2):
                for _ in range(reps):
                    cs, cl = zip(*[fval(rng, p) for _ in range(deg)])
                    fc = rng.randrange(len(FLAGMASKS[ft]))
                    bs = enc_ext(p, cs, ft, fc)
                    off = (deg - 1) * fsize(p, 0)
                    mb, mc = mutate_fp_bytes(rng, p, ft, bs, off)
                    yield 'f_de_flags', [field_head(fid, ft, 0), [p], [tw], mb], \
                        'dec/ft%d/bits%%8=%d/tw%d/%s' % (ft, p.bit_length() % 8, tw, mc.split('/')[0])
            for _ in range(reps // 2):
                cs, cl = zip(*[fval(rng, p) for _ in range(deg)])
                bs = enc_ext(p, cs, 0, 0)
                off = (deg - 1) * fsize(p, 0)
                mb, mc = mutate_fp_bytes(rng, p, 0, bs, off)
                yield 'f_de_plain', [field_head(fid, 0, rng.randrange(2), rng.randrange(2)), [p], [tw], mb], \
                    'dec_plain/tw%d/%s' % (tw, mc.split('/')[0])
    # exhaustive on the toy configurations: every byte string of the advertised length (8-bit modulus),
    # every two-byte top for the 15/16/17-bit moduli with a flag type that needs the extra byte
    if True:
        p = FIELDS[0]['p']
        for ft in (0, 1, 2):
            n = fsize(p, ft)
            step = 1 if scale > 1 else 3
            for v in range(0, 1 << (8 * n), step):
                yield 'f_de_flags', [field_head(0, ft, 0), [p], [1], le(v, n)], 'dec/exhaustive8/ft%d' % ft
        for fid in (2, 6, 8):       # bits = 16, 64, 128: flags spill into an extra byte
            p = FIELDS[fid]['p']
            for ft in (1, 2):
                n = fsize(p, ft)
                v, _ = fval(rng, p)
                for last in range(256):
                    bs = le(v, n - 1) + [last]
                    yield 'f_de_flags', [field_head(fid, ft, 0), [p], [1], bs], 'dec/extra_byte_exhaustive/ft%d' % ft


def gen_cmp(rng, scale):
    """the ordering the point codecs use for the sign flag, on every tower: Ord::cmp, PartialOrd::partial_cmp
    and the four operators must agree.  Pairs are correlated: y against -y with the high coordinates zero
    (prime subfield, intermediate subfields), equal high coordinates with one lower coordinate different,
    equal elements, neighbours, dense."""
    for fid in sorted(FIELDS):
        f = FIELDS[fid]
        p = f['p']
        for tw, deg in sorted(f['towers'].items()):
            reps = (3 if deg == 1 else 6) * scale
            for kind in ('neg_low', 'neg_one', 'same_high', 'equal', 'neighbour', 'dense'):
                for _ in range(reps):
                    x = [fval(rng, p)[0] for _ in range(deg)]
                    k = rng.randrange(1, deg + 1)              # number of low coordinates that may be non-zero
                    if kind == 'neg_low':                      # y vs -y, top deg-k coordinates zero
                        x = x[:k] + [0] * (deg - k)
                        if x[k - 1] == 0:
                            x[k - 1] = rng.randrange(1, p)
                        y = [(-c) % p for c in x]
                    elif kind == 'neg_one':                    # a single non-zero coordinate
                        x = [0] * deg
                        x[k - 1] = rng.choice([1, p - 1, (p - 1) // 2, (p + 1) // 2, rng.randrange(1, p)])
                        y = [(-c) % p for c in x]
                    elif kind == 'same_high':                  # arbitrary equal high part, the deciding coordinate is k-1
                        y = list(x)
                        y[k - 1] = fval(rng, p)[0]
                        for i in range(k - 1):
                            y[i] = fval(rng, p)[0]
                    elif kind == 'equal':
                        y = list(x)
                    elif kind == 'neighbour':
                        y = list(x)
                        y[k - 1] = (y[k - 1] + rng.choice([1, -1])) % p
                    else:
                        y = [rng.randrange(p) for _ in range(deg)]
                    if rng.randrange(2):
                        x, y = y, x
                    yield 'f_cmp', [field_head(fid, 0, 0), [p], [tw], x, y], 'cmp/tw%d/%s' % (tw, kind)


# ---------------------------------------------------------------------------------------
# curve points (generator side only: k*G, special points, representatives)
class Fld:
    """Fp (int), Fp[u]/(u^2 - nr) (pair), Fp[u]/(u^3 - nr) (triple)"""
    def __init__(self, p, deg, nr):
        self.p, self.deg, self.nr = p, deg, (nr[0] if nr else 0)
        self.q = p ** deg

    def el(self, c):
        return c[0] if self.deg == 1 else tuple(c)

    def co(self, x):
        return [x] if self.deg == 1 else list(x)

    def zero(self):
        return 0 if self.deg == 1 else (0,) * self.deg

    def one(self):
        return 1 if self.deg == 1 else (1,) + (0,) * (self.deg - 1)

    def add(self, a, b):
        p = self.p
        return (a + b) % p if self.deg == 1 else tuple((x + y) % p for x, y in zip(a, b))

    def sub(self, a, b):
        p = self.p
        return (a - b) % p if self.deg == 1 else tuple((x - y) % p for x, y in zip(a, b))

    def neg(self, a):
        return self.sub(self.zero(), a)

    def mul(self, a, b):
        p, nr = self.p, self.nr
        if self.deg == 1:
            return a * b % p
        if self.deg == 2:
            return ((a[0] * b[0] + nr * a[1] * b[1]) % p, (a[0] * b[1] + a[1] * b[0]) % p)
        return ((a[0] * b[0] + nr * (a[1] * b[2] + a[2] * b[1])) % p,
                (a[0] * b[1] + a[1] * b[0] + nr * a[2] * b[2]) % p,
                (a[0] * b[2] + a[1] * b[1] + a[2] * b[0]) % p)

    def inv(self, a):
        p, nr = self.p, self.nr
        if self.deg == 1:
            return pow(a, p - 2, p)
        if self.deg == 2:
            n = pow((a[0] * a[0] - nr * a[1] * a[1]) % p, p - 2, p)
            return (a[0] * n % p, (-a[1]) * n % p)
        t0 = (a[0] * a[0] - nr * a[1] * a[2]) % p
        t1 = (nr * a[2] * a[2] - a[0] * a[1]) % p
        t2 = (a[1] * a[1] - a[0] * a[2]) % p
        n = pow((a[0] * t0 + nr * (a[2] * t1 + a[1] * t2)) % p, p - 2, p)
        return (t0 * n % p, t1 * n % p, t2 * n % p)

    def small(self, k):
        return k % self.p if self.deg == 1 else (k % self.p,) + (0,) * (self.deg - 1)

    def rand(self, rng):
        return rng.randrange(self.p) if self.deg == 1 else tuple(rng.randrange(self.p) for _ in range(self.deg))

    def key(self, a):            # Ord: last coordinate first
        return a if self.deg == 1 else tuple(reversed(a))


# ---- polynomials of small degree over a Fld (coefficient lists, low to high): roots of the cubic
# x^3 + a x + (b - y^2), used to put a point on the curve *under a prescribed y* (generator side only)
def p_trim(F, f):
    f = list(f)
    while f and f[-1] == F.zero():
        f.pop()
    return f


def p_sub(F, f, g):
    n = max(len(f), len(g))
    z = F.zero()
    return p_trim(F, [F.sub(f[i] if i < len(f) else z, g[i] if i < len(g) else z) for i in range(n)])


def p_mul(F, f, g):
    if not f or not g:
        return []
    r = [F.zero()] * (len(f) + len(g) - 1)
    for i, x in enumerate(f):
        for j, y in enumerate(g):
            r[i + j] = F.add(r[i + j], F.mul(x, y))
    return p_trim(F, r)


def p_divmod(F, f, g):
    """g monic"""
    f = list(f)
    q = [F.zero()] * max(0, len(f) - len(g) + 1)
    for i in range(len(f) - len(g), -1, -1):
        c = f[i + len(g) - 1]
        q[i] = c
        if c != F.zero():
            for j, y in enumerate(g):
                f[i + j] = F.sub(f[i + j], F.mul(c, y))
    return p_trim(F, q), p_trim(F, f[:len(g) - 1])


def p_monic(F, f):
    if not f:
        return f
    c = F.inv(f[-1])
    return [F.mul(x, c) for x in f]


def p_gcd(F, f, g):
    f, g = p_monic(F, p_trim(F, f)), p_monic(F, p_trim(F, g))
    while g:
        f, g = g, p_monic(F, p_divmod(F, f, g)[1])
    return f


def p_powmod(F, b, e, m):
    r = [F.one()]
    b = p_divmod(F, b, m)[1]
    for bit in bin(e)[2:]:
        r = p_divmod(F, p_mul(F, r, r), m)[1]
        if bit == '1':
            r = p_divmod(F, p_mul(F, r, b), m)[1]
    return r


def p_roots(F, f, rng):
    """all roots in F of f (Cantor-Zassenhaus, odd characteristic)"""
    f = p_monic(F, p_trim(F, f))
    X = [F.zero(), F.one()]
    g = p_gcd(F, f, p_sub(F, p_powmod(F, X, F.q, f), X))
    out, todo = [], [g]
    while todo:
        g = todo.pop()
        if len(g) <= 1:
            continue
        if len(g) == 2:
            out.append(F.neg(g[0]))
            continue
        h = p_powmod(F, [F.rand(rng), F.one()], (F.q - 1) // 2, g)
        d = p_gcd(F, g, p_sub(F, h, [F.one()]))
        if 1 < len(d) < len(g):
            todo += [d, p_divmod(F, g, d)[0]]
        else:
            todo.append(g)
    return out


def sqrt_p(a, p):
    a %= p
    if a == 0:
        return 0
    if pow(a, (p - 1) // 2, p) != 1:
        return None
    if p % 4 == 3:
        return pow(a, (p + 1) // 4, p)
    q, s = p - 1, 0
    while q % 2 == 0:
        q //= 2; s += 1
    z = 2
    while pow(z, (p - 1) // 2, p) != p - 1:
        z += 1
    m, c, t, r = s, pow(z, q, p), pow(a, q, p), pow(a, (q + 1) // 2, p)
    while t != 1:
        i, t2 = 0, t
        while t2 != 1:
            t2 = t2 * t2 % p; i += 1
        b = pow(c, 1 << (m - i - 1), p)
        m, c = i, b * b % p
        t, r = t * c % p, r * b % p
    return r


class SW:
    def __init__(self, c):
        self.c = c
        self.F = Fld(c['p'], c['deg'], c['nr'])
        self.a, self.b = self.F.el(c['a']), self.F.el(c['b'])
        self.G = (self.F.el(c['gx']), self.F.el(c['gy']))

    def add(self, P, Q):
        F = self.F
        if P is None:
            return Q
        if Q is None:
            return P
        if P[0] == Q[0]:
            if P[1] != Q[1] or P[1] == F.zero():
                return None
            l = F.mul(F.add(F.mul(F.small(3), F.mul(P[0], P[0])), self.a), F.inv(F.add(P[1], P[1])))
        else:
            l = F.mul(F.sub(Q[1], P[1]), F.inv(F.sub(Q[0], P[0])))
        x = F.sub(F.sub(F.mul(l, l), P[0]), Q[0])
        return (x, F.sub(F.mul(l, F.sub(P[0], x)), P[1]))

    def mul(self, k, P):
        R = None
        while k:
            if k & 1:
                R = self.add(R, P)
            P = self.add(P, P)
            k >>= 1
        return R

    def rhs(self, x):
        F = self.F
        return F.add(F.add(F.mul(F.mul(x, x), x), F.mul(self.a, x)), self.b)

    def lift(self, x, rng):
        """a curve point with this x (prime base field only), any sign"""
        if self.F.deg != 1:
            return None
        y = sqrt_p(self.rhs(x), self.F.p)
        if y is None:
            return None
        return (x, y if rng.randrange(2) else (-y) % self.F.p)

    def enc(self, P, comp):
        F, p = self.F, self.F.p
        if P is None:
            x = y = F.zero(); fc = 1
        else:
            x, y = P
            fc = 0 if F.key(y) <= F.key(F.neg(y)) else 2
        if comp:
            return enc_ext(p, F.co(x), 1, fc)
        return enc_ext(p, F.co(x), 0, 0) + enc_ext(p, F.co(y), 1, fc)


class TE:
    def __init__(self, c):
        self.c = c
        self.F = Fld(c['p'], c['deg'], c['nr'])
        self.a, self.d = self.F.el(c['a']), self.F.el(c['b'])
        self.G = (self.F.el(c['gx']), self.F.el(c['gy']))

    def add(self, P, Q):
        F = self.F
        x1, y1 = P; x2, y2 = Q
        k = F.mul(self.d, F.mul(F.mul(x1, x2), F.mul(y1, y2)))
        return (F.mul(F.add(F.mul(x1, y2), F.mul(y1, x2)), F.inv(F.add(F.one(), k))),
                F.mul(F.sub(F.mul(y1, y2), F.mul(self.a, F.mul(x1, x2))), F.inv(F.sub(F.one(), k))))

    def mul(self, k, P):
        R = (self.F.zero(), self.F.one())
        while k:
            if k & 1:
                R = self.add(R, P)
            P = self.add(P, P)
            k >>= 1
        return R

    def lift_ext(self, t, rng, from_x=False):
        """extension base field: a curve point with this y (from_x: with this x), any sign"""
        F = self.F
        t2 = F.mul(t, t)
        if from_x:      # y^2 = (1 - a x^2) / (1 - d x^2)
            num, den = F.sub(F.one(), F.mul(self.a, t2)), F.sub(F.one(), F.mul(self.d, t2))
        else:           # x^2 = (1 - y^2) / (a - d y^2)
            num, den = F.sub(F.one(), t2), F.sub(self.a, F.mul(self.d, t2))
        if den == F.zero():
            return None
        rs = p_roots(F, [F.neg(F.mul(num, F.inv(den))), F.zero(), F.one()], rng)
        if not rs:
            return None
        o = rng.choice(rs)
        return (t, o) if from_x else (o, t)

    def lift(self, y, rng):
        F, p = self.F, self.F.p
        if F.deg != 1:
            return self.lift_ext(y, rng)
        den = (self.a - self.d * y * y) % p
        if den == 0:
            return None
        x = sqrt_p((1 - y * y) * pow(den, p - 2, p), p)
        if x is None:
            return None
        return (x if rng.randrange(2) else (-x) % p, y)

    def enc(self, P, comp):
        F, p = self.F, self.F.p
        x, y = P
        fc = 0 if F.key(x) <= F.key(F.neg(x)) else 1
        if comp:
            return enc_ext(p, F.co(y), 2, fc)
        return enc_ext(p, F.co(x), 0, 0) + enc_ext(p, F.co(y), 0, 0)


def curve_args(cid, comp, val, proj):
    c = CURVES[cid]
    return [[cid, c['N'], comp, val, proj], [c['p'], c['deg']], c['nr'], c['a'], c['b'], [c['r']]]


def sw_points(E, rng, n):
    """(point, class).  Branches: infinity; y <= -y both ways; y = 0 (tie); x = 0; subgroup / not."""
    F, c = E.F, E.c
    pts = [(None, 'identity'), (E.G, 'G'), ((E.G[0], F.neg(E.G[1])), '-G')]
    for _ in range(n):
        k = rng.choice([2, 3, c['r'] - 2, rng.randrange(1, c['r']), rng.randrange(1, 1 << 20)])
        pts.append((E.mul(k, E.G), 'kG'))
    if F.deg == 1:
        P0 = E.lift(0, rng)                       # x = 0 where b is a square
        if P0:
            pts.append((P0, 'x=0'))
        for _ in range(n):                        # on the curve, (for h > 1: mostly) outside the subgroup
            P = E.lift(rng.randrange(F.p), rng)
            if P:
                pts.append((P, 'on_curve_any'))
        if c['h'] % 2 == 0:                       # a 2-torsion point: y = 0 = -y
            found = False
            for _ in range(12):
                P = E.lift(rng.randrange(F.p), rng)
                T = E.mul(c['r'], P) if P else None
                for _ in range(c['h'].bit_length()):
                    if T is None:
                        break
                    if T[1] == 0:
                        pts.append((T, 'y=0'))
                        found = True
                        break
                    T = E.add(T, T)
                if found:
                    break
    else:
        pts += sw_points_sparse_y(E, rng, n)
    return pts


def sw_points_sparse_y(E, rng, n):
    """Curves over Fp2 / Fp3: points whose y has vanishing coordinates, so that the comparison of y with -y
    (sign flag `y <= -y`, root order `y < -y`) is decided by a *lower* coordinate: y in the prime subfield
    (class y_in_subfield: y.c1 = 0 resp. y.c2 = y.c1 = 0), the other zero patterns, and the tie y = 0.
    y is prescribed, x is a root of x^3 + a x + b - y^2 (exists for ~2/3 of the y); such points are
    generally outside the prime-order subgroup (checked decoding must reject them, unchecked must round-trip)."""
    F, p, deg = E.F, E.F.p, E.F.deg
    pts = []

    def solve(y, cl, both=True):
        f = [F.sub(E.b, F.mul(y, y)), E.a, F.zero(), F.one()]
        xs = p_roots(F, f, rng)
        if not xs:
            return False
        x = rng.choice(xs)
        assert E.rhs(x) == F.mul(y, y)
        pts.append(((x, y), cl))
        if both and y != F.zero():
            pts.append(((x, F.neg(y)), cl))
        return True

    # the subfield: boundary values of the deciding coordinate first ((p-1)/2 and (p+1)/2 are opposite)
    want = n + 1
    cands = [(p - 1) // 2, 1, 2, 3, p - 2] + [rng.randrange(1, p) for _ in range(4 * want)]
    for c0 in cands:
        if want == 0:
            break
        if solve(F.el([c0] + [0] * (deg - 1)), 'y_in_subfield'):
            want -= 1
    # every other pattern of zero coordinates (a single non-zero higher coordinate, top coordinate zero, ...)
    for mask in range(2, (1 << deg) - 1):
        for _ in range(8):
            y = F.el([rng.randrange(1, p) if (mask >> i) & 1 else 0 for i in range(deg)])
            if solve(y, 'y_sparse/' + ''.join('x' if (mask >> i) & 1 else '0' for i in range(deg))):
                break
    solve(F.zero(), 'y=0')
    return pts


def te_points(E, rng, n):
    F, c = E.F, E.c
    p = F.p
    pts = [((F.zero(), F.one()), 'identity'), ((F.zero(), F.neg(F.one())), 'x=0,y=-1'), (E.G, 'G'),
           ((F.neg(E.G[0]), E.G[1]), '-G')]
    for _ in range(n):
        k = rng.choice([2, 3, c['r'] - 2, rng.randrange(1, c['r']), rng.randrange(1, 1 << 20)])
        pts.append((E.mul(k, E.G), 'kG'))
    P0 = E.lift(F.zero(), rng)                    # y = 0: x^2 = 1/a
    if P0:
        pts.append((P0, 'te_y=0'))
    if p < 1000 and F.deg == 1:                   # toy field: every point of the curve
        for y in range(p):
            P = E.lift(y, rng)
            if P:
                pts.append((P, 'all_points'))
                if P[0]:
                    pts.append((((-P[0]) % p, y), 'all_points'))
    for _ in range(n):
        P = E.lift(F.rand(rng), rng)
        if P:
            pts.append((P, 'on_curve_any'))
    if F.deg >= 2:
        pts += te_points_sparse_x(E, rng, n)
    return pts


def te_points_sparse_x(E, rng, n):
    """Curves over Fp2: points whose x has vanishing coordinates (x prescribed, y solved), both signs, so that the
    sign flag `x <= -x` is decided by the lower coordinate; and points with y in the prime subfield (the coordinate
    that carries the flag byte has c1 = 0).  Generally outside the prime-order subgroup."""
    F, p, deg = E.F, E.F.p, E.F.deg
    pts = []
    want = n + 1
    for c0 in [(p - 1) // 2, 1, 2, 3, p - 2] + [rng.randrange(1, p) for _ in range(4 * want)]:
        if want == 0:
            break
        P = E.lift_ext(F.el([c0] + [0] * (deg - 1)), rng, from_x=True)
        if P:
            pts += [(P, 'x_in_subfield'), ((F.neg(P[0]), P[1]), 'x_in_subfield')]
            want -= 1
    for mask in range(2, (1 << deg) - 1):
        for _ in range(8):
            x = F.el([rng.randrange(1, p) if (mask >> i) & 1 else 0 for i in range(deg)])
            P = E.lift_ext(x, rng, from_x=True)
            if P:
                cl = 'x_sparse/' + ''.join('x' if (mask >> i) & 1 else '0' for i in range(deg))
                pts += [(P, cl), ((F.neg(P[0]), P[1]), cl)]
                break
    for _ in range(8):
        P = E.lift_ext(F.el([rng.randrange(1, p)] + [0] * (deg - 1)), rng)
        if P:
            pts.append((P, 'y_in_subfield'))
            break
    return pts


def mutate_point_bytes(rng, E, bs, comp):
    """decode-side stream for points.  Branches of deserialize_with_mode: field errors (as for Fp),
    infinity flag (compressed: x ignored), not on curve (sqrt None / check), wrong subgroup,
    sign flag selecting the other root."""
    p = E.F.p
    deg = E.F.deg
    c0 = fsize(p, 0)
    kind = E.c['kind']
    ft = 1 if kind == 'sw' else 2
    k = rng.randrange(12)
    b = list(bs)
    if k <= 2:
        return b + ([rng.randrange(256)] * rng.randrange(0, 3)), 'valid'
    if k == 3:
        bit = rng.randrange(16)
        b[len(b) - 1 - bit // 8] ^= 1 << (bit % 8)
        return b, 'bitflip_last2'
    if k == 4:
        i = rng.randrange(len(b))
        b[i] ^= 1 << rng.randrange(8)
        return b, 'bitflip_any'
    if k == 5:
        top = rng.choice([0, 64, 128, 192])
        b[-1] = (b[-1] & 63) | top
        return b, 'flag_combo%x' % top
    if k == 6:
        return b[:rng.choice([0, 1, len(b) - 1, c0, len(b) // 2, rng.randrange(len(b))])], 'truncated'
    if k == 7:
        # replace one base-field coordinate by an out-of-range integer
        ncoord = len(b) // c0 if (kind == 'te' and not comp) else None
        j = rng.randrange(max(1, (len(b) - 1) // c0))
        v = rng.choice([p, p + 1, (1 << p.bit_length()) - 1])
        b[j * c0:(j + 1) * c0] = le(v & ((1 << (8 * c0)) - 1), c0)
        return b[:len(bs)], 'coord_ge_p'
    if k == 8 and kind == 'sw':
        # infinity flag on top of arbitrary coordinates
        b[-1] = (b[-1] & 63) | 64
        return b, 'infinity_flag_nonzero_coords'
    if k == 9:
        # a random x (y for TE): on the curve for about half of them, rarely in the subgroup
        if deg == 1:
            v = rng.randrange(p)
            head = enc_fp(p, v, ft if comp else 0, 0) if comp else None
            if comp:
                head[-1] |= rng.choice(FLAGMASKS[ft])
                return head, 'random_abscissa'
        return b, 'valid'
    if k == 10:
        return [rng.randrange(256) for _ in range(len(b))], 'random_bytes'
    return b, 'valid'


def gen_points(rng, scale):
    for cid in sorted(CURVES):
        c = CURVES[cid]
        big = c['deg'] >= 2 or c['p'].bit_length() > 300
        n = (2 if big else 4) * (1 if scale == 1 else 6)
        if c['kind'] == 'sw':
            E = SW(c)
            F = E.F
            pts = sw_points(E, rng, n)
            if F.deg >= 2 and F.p < 1000:             # toy extension field: a larger sample of the whole curve
                for _ in range(40 if scale == 1 else 400):
                    x = F.rand(rng)
                    ys = p_roots(F, [F.neg(E.rhs(x)), F.zero(), F.one()], rng)
                    if ys:
                        pts.append(((x, rng.choice(ys)), 'toy_on_curve_any'))
            # base prime field whose top byte cannot hold the two flag bits: they go into an extra byte
            spill = c['p'].bit_length() % 8 in (0, 7)
            pre = ('sw_ext_nospare/' if F.deg >= 2 else 'sw_nospare/') if spill else ''
            for P, cl in pts:
                for comp in (0, 1):
                    if P is None:
                        yield 'sw_ser', curve_args(cid, comp, 0, 0) + [F.co(F.zero()), F.co(F.zero()), [1]], pre + 'ser/aff/' + cl
                    else:
                        yield 'sw_ser', curve_args(cid, comp, 0, 0) + [F.co(P[0]), F.co(P[1]), [0]], pre + 'ser/aff/' + cl
                    # projective representatives: Z = 1 branch, generic Z, Z = 0 (any X, Y)
                    for zc in ('z1', 'zrand', 'zsmall'):
                        if P is None:
                            X, Y, Z = rng.choice([(F.one(), F.one(), F.zero()), (F.rand(rng), F.rand(rng), F.zero()),
                                                  (F.zero(), F.one(), F.zero())])
                            zc = 'z0'
                        else:
                            lam = {'z1': F.one(), 'zrand': F.rand(rng), 'zsmall': F.small(rng.choice([2, 3, F.p - 1]))}[zc]
                            if lam == F.zero():
                                lam = F.one()
                            l2 = F.mul(lam, lam)
                            X, Y, Z = F.mul(P[0], l2), F.mul(P[1], F.mul(l2, lam)), lam
                        yield 'sw_ser', curve_args(cid, comp, 0, 1) + [F.co(X), F.co(Y), F.co(Z)], pre + 'ser/proj/%s/%s' % (zc, cl)
                    bs = E.enc(P, comp)
                    for val in (0, 1):
                        for proj in (0, 1):
                            yield 'sw_de', curve_args(cid, comp, val, proj) + [bs], pre + 'de/valid/%s/c%dv%dp%d' % (cl, comp, val, proj)
                    for _ in range(2 if scale == 1 else 5):
                        mb, mc = mutate_point_bytes(rng, E, bs, comp)
                        yield 'sw_de', curve_args(cid, comp, rng.randrange(2), rng.randrange(2)) + [mb], pre + 'de/%s/c%d' % (mc, comp)
        else:
            E = TE(c)
            F = E.F
            pts = te_points(E, rng, n)
            # base fields without a spare bit in the top byte: the x-sign flag needs an extra byte
            pre = ('te_ext_nospare/' if F.deg >= 2 else 'te_nospare/') if c['p'].bit_length() % 8 == 0 else ''
            if F.deg >= 2 and F.p < 1000:             # toy extension field: a larger sample of the whole curve
                for _ in range(40 if scale == 1 else 400):
                    P = E.lift(F.rand(rng), rng)
                    if P:
                        pts.append((P, 'toy_on_curve_any'))
            for P, cl in pts:
                for comp in (0, 1):
                    yield 'te_ser', curve_args(cid, comp, 0, 0) + [F.co(P[0]), F.co(P[1])], pre + 'ser/aff/' + cl
                    for zc in ('z1', 'zrand', 'zsmall'):
                        lam = {'z1': F.one(), 'zrand': F.rand(rng), 'zsmall': F.small(rng.choice([2, 3, F.p - 1]))}[zc]
                        if lam == F.zero():
                            lam = F.one()
                        X, Y, Z = F.mul(P[0], lam), F.mul(P[1], lam), lam
                        T = F.mul(F.mul(P[0], P[1]), lam)
                        yield 'te_ser', curve_args(cid, comp, 0, 1) + [F.co(X), F.co(Y), F.co(T), F.co(Z)], \
                            pre + 'ser/proj/%s/%s' % (zc, cl)
                    bs = E.enc(P, comp)
                    for val in (0, 1):
                        for proj in (0, 1):
                            yield 'te_de', curve_args(cid, comp, val, proj) + [bs], pre + 'de/valid/%s/c%dv%dp%d' % (cl, comp, val, proj)
                    for _ in range(2 if scale == 1 else 5):
                        mb, mc = mutate_point_bytes(rng, E, bs, comp)
                        yield 'te_de', curve_args(cid, comp, rng.randrange(2), rng.randrange(2)) + [mb], pre + 'de/%s/c%d' % (mc, comp)
            if c['p'] < 256 and F.deg == 2:
                # toy extension field: random (y.c0, y.c1) byte pairs (incl. bytes >= p) x a set of flag bytes
                for _ in range(150 if scale == 1 else 1500):
                    y0, y1 = rng.randrange(256), rng.randrange(256)
                    for last in (0, 0x80, 1, 0x40, 0xc0, 0x7f, 0xff):
                        yield 'te_de', curve_args(cid, 1, rng.randrange(2), rng.randrange(2)) + [[y0, y1, last]], \
                            pre + 'de/toy_bytes/last%02x' % last
            if c['p'] < 256 and F.deg == 1:
                # toy field: every y byte x a set of flag bytes (only 0x00 / 0x80 are canonical)
                for y in range(256):
                    for last in (0, 0x80, 1, 0x40, 0xc0, 0x7f, 0xff):
                        yield 'te_de', curve_args(cid, 1, rng.randrange(2), rng.randrange(2)) + [[y, last]], \
                            pre + 'de/exhaustive8/last%02x' % last
                    for x in (0, 1, rng.randrange(256)):
                        yield 'te_de', curve_args(cid, 0, rng.randrange(2), rng.randrange(2)) + [[x, y]], \
                            pre + 'de/exhaustive8/uncompressed'


def gen(rng, tier):
    scale = 1 if tier == 'quick' else 12
    yield from gen_fields(rng, scale)
    yield from gen_cmp(rng, scale)
    yield from gen_points(rng, scale)


def nontrivial(case, out):
    return any(x != 0 for x in case['args'][-1]) or len(case['args']) > 7


def xcheck_ok(case):
    # kernel re-evaluation only on small moduli (vm_compute on stdlib Z)
    return case['op'].startswith('f_') and case['args'][1][0] < (1 << 64)


XCHECK = {'quick': 200, 'thorough': 1200}
RULE = ('prime fields with every residue of MODULUS_BIT_SIZE mod 8 (0..7 spare bits in the top byte) incl. bits = 64N '
        '(flags spill into an extra byte), x 3 flag types x all flag values, towers Fq2/Fq6/Fq12/Fq3/Fq4/Fq6(2 over 3); '
        'values 0, 1, p-1, p-2, halves, top bit, byte/limb boundaries, dense; decode stream = valid encodings mutated '
        '(single-bit flips of the last two bytes, integer = p, p+1, 2^bits-1, all-ones, flag combinations, stray bits, '
        'truncations, trailing bytes, random bytes), exhaustive byte strings for the 8-bit modulus and exhaustive extra '
        'byte for the 16/64/128-bit moduli; points: identity, +-G, kG, x = 0, y = 0 (2-torsion), on-curve non-subgroup '
        'points, projective representatives (Z = 1, Z random, Z = 0) in 4 modes x {affine, projective}; curves over '
        'Fp2/Fp3: points with y in the prime subfield / with every other pattern of zero coordinates (x solved from y), '
        'y = 0; the ordering itself (cmp, partial_cmp, <, <=, >, >=) on all towers for y vs -y with zero high coordinates, '
        'equal high coordinates, neighbours; twisted Edwards curves over 8/16/64/128/256-bit base fields with no spare '
        'bit (flag in an extra byte) incl. all points of a curve over F_251; '
        'extension towers over base fields whose top byte cannot hold the flags (Fp2 over 8/15/16/63/64/127/128/192/'
        '255(x3)/256(x4)-bit primes, Fp3 over 16/63/127/128/255/256, Fp4 over 16/64/128/255, Fp6 = 3 over 2 over '
        '8/16/64/192/256, Fp6 = 2 over 3 over 16/128 bits): the flags of the last coefficient spill into an extra byte, '
        'advertised size vs bytes written for every flag type; SW curves over the 64-bit prime field and over Fp2 of '
        '8/63/64/255/256-bit primes, TE curves over Fp2 of 8/16/64/256-bit primes (x prescribed with zero coordinates, '
        'y in the subfield, samples of the whole toy curves); non-trivial = '
        'the payload has a non-zero entry; distinct = distinct case lines')
TRUSTED = ['props/C09/configs.json (curve/field constants dumped from the compiled crates; re-compared with the compiled '
           'constants by the harness in every case)',
           'props/C09/mkte.py (derivation of the twisted-Edwards configurations defined in harness/src/bin/c09.rs)',
           'props/C09/mkext.py (derivation of the extension towers and the curves over them defined in harness/src/bin/c09.rs)',
           'the byte strings of the decode stream are generator inputs (built by prop.py), not expected values']
ASSUMPTIONS = ['a field element is modelled by its standard-form integer (into_bigint / from_bigint of C01)',
               'reader = slice reader (read_exact fails with UnexpectedEof on short input); writer = Vec (never fails)',
               'Field::sqrt is modelled by a specification-level Tonelli-Shanks (which root it returns is irrelevant: '
               'both roots are re-sorted); is_in_correct_subgroup_assuming_on_curve is modelled by r*P = O with the '
               'affine group law (the shipped fast tests are property C12)']
HYPOTHESES = ['field_theory of the base field (point theorems)', 'sqrt oracle specification (sqrt_some / sqrt_none)',
              'cmp is a total order compatible with equality (cmp_eq / cmp_antisym)', 'te: a <> d']

# T-field translator, table 2: see props/C13/prop.py (coordinate recovery / to_flags / from_x_coordinate = C09 models)
STRICT_PROP_FILES = ['Gen2', 'Gen3']


def _gen2_regen(ctx):
    import importlib.util, os
    sp = importlib.util.spec_from_file_location('gen_pre2', os.path.join(ctx['ROOT'], 'props', 'Gen', 'pre2.py'))
    m = importlib.util.module_from_spec(sp); sp.loader.exec_module(m)
    m.regen(ctx)


def pre(ctx):
    _gen2_regen(ctx)
    _gen3_regen(ctx)

# T-field translator, table 3 (lib/xlate_field.py --table3): per-curve hook overrides (Fp2/Fp3/Fp6 non-residue hooks,
# mul_by_a), tower helpers (norm, cyclotomic inverse, mul_by_fp*, Frobenius coefficient hooks), SubAssign / cofactor code,
# point serialisation; Props/Gen3.v is a strict obligation
def _gen3_regen(ctx):
    import importlib.util, os
    sp = importlib.util.spec_from_file_location('gen_pre3', os.path.join(ctx['ROOT'], 'props', 'Gen', 'pre3.py'))
    m = importlib.util.module_from_spec(sp); sp.loader.exec_module(m)
    m.regen(ctx)

