#!/usr/bin/env python3
"""One-off: dump the compiled configuration constants through the harness (`dump`, `zc_dump`,
`po_dump` ops of harness/src/bin/c10.rs) into props/C10/configs.json.  The harness re-checks
these constants against the compiled ones in every case, so a stale table shows up as a mismatch."""
import subprocess, json
BIN = '/verif/build/target/debug/c10'


def parse(line):
    return [[] if t == '_' else [int(x, 16) for x in t.split(',')] for t in line.split(' ')]


def run(lines):
    return subprocess.run([BIN], input=''.join(lines), capture_output=True, text=True).stdout.splitlines()


def curve(r, kind):
    h = 0
    for l in reversed(r[8]):
        h = (h << 64) + l
    return {'p': r[1][0], 'deg': r[1][1], 'N': r[1][2], 'nr': r[2], 'a': r[3], 'b': r[4], 'r': r[5][0],
            'gx': r[6], 'gy': r[7], 'cof': r[8], 'h': h, 'kind': kind}


curves, zc, po = {}, {}, {}
# short Weierstrass: 0..19 (base field Fq / Fq2), 40..59 (Fq3), toy 100..119; twisted Edwards: 20..39, toy 120..
ids = [0, 1, 2, 3, 4, 6, 8, 9, 10, 11, 12, 13, 14, 15, 16, 17, 40, 41, 42,
       20, 21, 22, 23, 24, 25, 26, 27, 28, 29, 30, 31,
       100, 101, 102, 103, 104, 105, 106, 107, 120, 121, 122]
for i, l in zip(ids, run('0:dump %x\n' % i for i in ids)):
    r = parse(l)
    assert r[0] == [0], (i, l)
    curves[i] = curve(r, 'te' if (20 <= i < 40 or i >= 120) else 'sw')
for i, l in zip([0, 1], run('0:zc_dump %x\n' % i for i in (0, 1))):
    r = parse(l)
    assert r[0] == [0], (i, l)
    zc[i] = curve(r, 'sw')
PO_IDS = [0, 1, 2, 3, 4, 5, 6, 7]     # 4..7: target field Fp6 = 2 over 3 (cp6_782, bw6_767, bw6_761, mnt6_298)
for i, l in zip(PO_IDS, run('0:po_dump %x\n' % i for i in PO_IDS)):
    r = parse(l)
    assert r[0] == [0], (i, l)
    p, N, d = r[1]
    uu, vv, vvv, ww, uuu = r[3], r[4], r[5], r[6], r[7]
    if d == 6:
        # coordinates (c0.c0, c0.c1, c0.c2, c1.c0, c1.c1, c1.c2): unit(1) = u, unit(3) = v;  u^3 = nr3 in Fp, v^2 = u
        assert uu == [0, 0, 1, 0, 0, 0] and uuu[1:] == [0] * 5 and ww == [0, 1, 0, 0, 0, 0], (uu, uuu, ww)
        po[i] = {'p': p, 'N': N, 'tower': 32, 'deg': 6, 'r': r[2][0], 'nr3': uuu[0], 'nr2': 0, 'nr6': [0, 0]}
        continue
    assert uu[1:] == [0] * (d - 1)
    e = {'p': p, 'N': N, 'tower': d, 'deg': d, 'r': r[2][0], 'nr2': uu[0], 'nr3': 0}
    if d == 12:
        assert vvv[2:] == [0] * 10 and ww == [0, 0, 1] + [0] * 9, (vvv, ww)   # v^3 = c0 + c1 u, w^2 = v
        e['nr6'] = vvv[:2]
    else:
        assert d == 4 and ww == [0, 1, 0, 0], ww                                # v^2 = u (v = w here)
        e['nr6'] = [0, 0]
    po[i] = e
json.dump({'curves': curves, 'zc': zc, 'po': po}, open('/verif/props/C10/configs.json', 'w'), indent=1, sort_keys=True)
print(len(curves), 'curves', len(zc), 'zc', len(po), 'po')

# INPUTS for the po_de element classes (gt.json holds inputs only; what they decode to / whether they are accepted is
# decided by the Rust code and the Coq model): per engine
#   'g'     : one element of order r of the target group;
#   'small' : for every prime d <= 50 dividing q^k - 1, one element of order d, x = u^((q^k - 1)/d) for a random u of the
#             full field (retry until x != 1).  The multiplicative group is cyclic, so EVERY element of order d is a power
#             x^j (prop.py draws j at random), and x lies in the subfield F_{q^m}, m = ord_d(q) (class tag `sub<m>`).
import sys, random, time
sys.path.insert(0, '/verif/props/C10')
from tower import target_field, fpow
rng = random.Random(10)
PRIMES = [d for d in range(2, 51) if all(d % t for t in range(2, d))]
gt = {}
for i, e in po.items():
    F = target_field(e['p'], e['tower'], e['nr2'], e['nr6'], e['nr3'])
    k = e['deg']
    n = e['p'] ** k - 1
    t0 = time.time()
    assert n % e['r'] == 0
    while True:
        f = F.rand(rng)
        g = fpow(F, f, n // e['r'])
        if g != F.one():
            break
    assert fpow(F, g, e['r']) == F.one()
    small = {}
    for d in PRIMES:
        if n % d:
            continue
        while True:
            x = fpow(F, F.rand(rng), n // d)
            if x != F.one():
                break
        assert fpow(F, x, d) == F.one()
        small[d] = F.co(x)
    gt[i] = {'g': F.co(g), 'small': small}
    print('gt', i, sorted(small), round(time.time() - t0, 1), 's')
json.dump(gt, open('/verif/props/C10/gt.json', 'w'), indent=1, sort_keys=True)
