#!/usr/bin/env python3
"""One-off: dump the compiled configuration constants through the harness (`dump`, `zc_dump`,
`po_dump` ops of harness/src/bin/c10.rs) into props/C10/configs.json.  The harness re-checks
these constants against the compiled ones in every case, so a stale table shows up as a mismatch."""
import subprocess, json
BIN = '/verif/build/target/debug/c10'


def parse(line):
    return [[] if t == '_' else [int(x, 16) for x in t.split(',')] for t in line.split(' ')]


def run(lines):
    return subprocess.run([BIN], input=''.join(lines), capture_output=True, text=True).stdout.splitlines()


def curve(r, kind):
    h = 0
    for l in reversed(r[8]):
        h = (h << 64) + l
    return {'p': r[1][0], 'deg': r[1][1], 'N': r[1][2], 'nr': r[2], 'a': r[3], 'b': r[4], 'r': r[5][0],
            'gx': r[6], 'gy': r[7], 'cof': r[8], 'h': h, 'kind': kind}


curves, zc, po = {}, {}, {}
# short Weierstrass: 0..19 (base field Fq / Fq2), 40..59 (Fq3), toy 100..119; twisted Edwards: 20..39, toy 120..
ids = [0, 1, 2, 3, 4, 6, 8, 9, 10, 11, 12, 13, 14, 15, 16, 17, 40, 41, 42,
       20, 21, 22, 23, 24, 25, 26, 27, 28, 29, 30, 31,
       100, 101, 102, 103, 104, 105, 106, 107, 120, 121, 122]
for i, l in zip(ids, run('0:dump %x\n' % i for i in ids)):
    r = parse(l)
    assert r[0] == [0], (i, l)
    curves[i] = curve(r, 'te' if (20 <= i < 40 or i >= 120) else 'sw')
for i, l in zip([0, 1], run('0:zc_dump %x\n' % i for i in (0, 1))):
    r = parse(l)
    assert r[0] == [0], (i, l)
    zc[i] = curve(r, 'sw')
for i, l in zip([0, 1, 2, 3], run('0:po_dump %x\n' % i for i in (0, 1, 2, 3))):
    r = parse(l)
    assert r[0] == [0], (i, l)
    p, N, d = r[1]
    uu, vv, vvv, ww = r[3], r[4], r[5], r[6]
    assert uu[1:] == [0] * (d - 1)
    e = {'p': p, 'N': N, 'tower': d, 'r': r[2][0], 'nr2': uu[0]}
    if d == 12:
        assert vvv[2:] == [0] * 10 and ww == [0, 0, 1] + [0] * 9, (vvv, ww)   # v^3 = c0 + c1 u, w^2 = v
        e['nr6'] = vvv[:2]
    else:
        assert d == 4 and ww == [0, 1, 0, 0], ww                                # v^2 = u (v = w here)
        e['nr6'] = [0, 0]
    po[i] = e
json.dump({'curves': curves, 'zc': zc, 'po': po}, open('/verif/props/C10/configs.json', 'w'), indent=1, sort_keys=True)
print(len(curves), 'curves', len(zc), 'zc', len(po), 'po')

# one element of order r of each target group (an *input* for the po_de valid-encoding classes)
import sys, random, time
sys.path.insert(0, '/verif/props/C10')
from tower import target_field, fpow
rng = random.Random(10)
gt = {}
for i, e in po.items():
    F = target_field(e['p'], e['tower'], e['nr2'], e['nr6'])
    t0 = time.time()
    while True:
        f = F.rand(rng)
        g = fpow(F, f, (e['p'] ** e['tower'] - 1) // e['r'])
        if g != F.one():
            break
    assert fpow(F, g, e['r']) == F.one()
    gt[i] = F.co(g)
    print('gt', i, round(time.time() - t0, 1), 's')
json.dump(gt, open('/verif/props/C10/gt.json', 'w'), indent=1, sort_keys=True)
