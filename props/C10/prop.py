"""C10: checked deserialization only yields valid group elements and never panics.
Case generator + property metadata.  The byte strings are *inputs* built here (valid encodings,
then mutated / truncated / extended; points on and off the curve, inside and outside the
subgroup); what they decode to is decided by the Rust code and by the Coq model only.
`extra` applies the model's independent validity oracle (curve equation, r*P = O by the proved
double-and-add) to every point the Rust code returned with validation on, and checks that no
decoder consumed more than the advertised size."""
import sys, os, json, subprocess
HERE = os.path.dirname(os.path.abspath(__file__))
sys.path.insert(0, HERE)
sys.path.insert(0, '/verif/lib')
from tower import Fp, Quad, Cubic, fpow, target_field, fsqrt, sqrt_p

OPS = {'f_de': 1, 'sw_de': 2, 'te_de': 3, 'zc_de': 4, 'po_de': 5, 'sw_check': 6, 'te_check': 7,
       'sw_revalid': 8, 'te_revalid': 9}

CFG = json.load(open(os.path.join(HERE, 'configs.json')))
CURVES = {int(k): v for k, v in CFG['curves'].items()}
ZC = {int(k): v for k, v in CFG['zc'].items()}
PO = {int(k): v for k, v in CFG['po'].items()}
GT = {int(k): v for k, v in json.load(open(os.path.join(HERE, 'gt.json'))).items()}   # inputs: 'g' of order r, 'small' {d: order d}
TOY = [c for c in CURVES if c >= 100 and CURVES[c]['p'] < 256]     # one-byte fields: exhaustive streams
# toy curve 107: 71-bit field, COFACTOR = [1, 3] (= 3 * 2^64 + 1), r = 31: r*P is cheap, so a dense stream of points
DENSE = {107: 12}
# DEFECT-1: see NOTES.md; the class that exhibits it is generated only on request
DEFECT1 = True   # the class stays on: the defect was repaired in /repo by fix: commit af4ede0 and must not return

# f_de configurations: id -> (p, N, {tower: degree})
P381 = CURVES[0]['p']
P254 = CURVES[3]['p']
P298 = CURVES[6]['p']
FIELDS = {
    9: (CURVES[21]['p'], 4, {1: 1}), 10: (CURVES[2]['p'], 4, {1: 1}),
    11: (P381, 6, {1: 1, 2: 2, 12: 12}), 13: (P254, 4, {1: 1, 2: 2, 12: 12}),
    14: (P298, 5, {1: 1, 2: 2, 4: 4}), 30: (P381, 6, {1: 1, 2: 2, 12: 12}),
    40: (59, 1, {1: 1}), 41: (61, 1, {1: 1}), 42: (127, 1, {1: 1}),
}
FLAGBITS = {0: 0, 1: 2, 2: 1}
FLAGMASKS = {0: [0], 1: [0, 64, 128], 2: [0, 128]}


def fsize(p, ft):
    return (p.bit_length() + FLAGBITS[ft] + 7) // 8


def le(v, n):
    return [(v >> (8 * i)) & 255 for i in range(n)]


def be(v, n):
    return le(v, n)[::-1]


def enc_fp(p, v, ft, mask):
    b = le(v, fsize(p, ft))
    b[-1] |= mask
    return b


def enc_ext(p, coords, ft, mask):
    out = []
    for c in coords[:-1]:
        out += enc_fp(p, c, 0, 0)
    return out + enc_fp(p, coords[-1], ft, mask)


def fval(rng, p):
    k = rng.randrange(8)
    if k == 0:
        return 0
    if k == 1:
        return 1
    if k == 2:
        return p - 1
    if k == 3:
        return (p - 1) // 2
    if k == 4:
        return (p + 1) // 2
    return rng.randrange(p)


def bad_int(rng, p, n):
    """an integer >= p that fits n bytes (or the largest n-byte integer)"""
    bits = p.bit_length()
    v = rng.choice([p, p + 1, (1 << bits) - 1, (1 << (8 * n)) - 1, p + rng.randrange(1 << 16), 1 << bits])
    return v & ((1 << (8 * n)) - 1)


MODES = [(0, 0), (0, 1), (1, 0), (1, 1)]


# ---------------------------------------------------------------------------------------
# field elements
def gen_fields(rng, scale):
    for fid in sorted(FIELDS):
        p, N, towers = FIELDS[fid]
        for tw, deg in sorted(towers.items()):
            size = deg * fsize(p, 0)

            def case(bs, cls, mode=None):
                c, v = mode if mode else rng.choice(MODES)
                return 'f_de', [[fid, N, 0, c, v], [p], [tw], bs], 'f/%s/tw%d' % (cls, tw)
            # valid encodings, all 4 modes (Fp ignores both; the property says "any mode")
            for m in MODES:
                for _ in range(2 * scale):
                    yield case(enc_ext(p, [fval(rng, p) for _ in range(deg)], 0, 0), 'valid', m)
            # integer >= p in one coordinate: from_bigint range check -> InvalidData
            for _ in range(6 * scale):
                cs = [fval(rng, p) for _ in range(deg)]
                bs = enc_ext(p, cs, 0, 0)
                j = rng.randrange(deg)
                n = fsize(p, 0)
                bs[j * n:(j + 1) * n] = le(bad_int(rng, p, n), n)
                yield case(bs, 'int_ge_p')
            # EVERY truncation length 0..size-1 (read_exact on a short slice -> IoError)
            full = enc_ext(p, [fval(rng, p) for _ in range(deg)], 0, 0)
            step = 1 if (size <= 100 or scale > 1 or fid == 30) else 7
            for cut in sorted(set(list(range(0, size, step)) + [size - 1, size - 2, fsize(p, 0)])):
                if 0 <= cut < size:
                    yield case(full[:cut], 'truncated')
            # longer than needed: must stop at `size`
            for _ in range(2 * scale):
                yield case(full + [rng.randrange(256) for _ in range(rng.randrange(1, 70))], 'valid+trailing')
            for _ in range(4 * scale):
                yield case([rng.randrange(256) for _ in range(size)], 'random_bytes')
            yield case([255] * size, 'all_ones')
            yield case([0] * size, 'all_zero')
    # exhaustive: every one-byte string for the toy fields, every mode
    for fid in (40, 41, 42):
        p, N, _ = FIELDS[fid]
        for b in range(256):
            for m in (MODES if scale > 1 else [MODES[b % 4]]):
                yield 'f_de', [[fid, N, 0, m[0], m[1]], [p], [1], [b]], 'f/exhaustive1'


# ---------------------------------------------------------------------------------------
# curves (generator side: points to encode)
def field_of(c):
    if c['deg'] == 1:
        return Fp(c['p'])
    return (Quad if c['deg'] == 2 else Cubic)(Fp(c['p']), c['nr'][0] % c['p'])


def weight(c):
    """cost of one r*P in the extracted model, relative to a 381-bit prime field with a 255-bit r"""
    return c['deg'] ** 2 * (c['p'].bit_length() / 381.0) ** 2 * (c['r'].bit_length() / 255.0)


# quick tier, curves with weight > LITE_W (mnt4_753 G2, mnt6_753 G2, cp6_782 G2): which encodings of an on-curve point
# are offered with Validate::Yes (each costs one r*P in the model); every class keeps both encodings with Validate::No
LITE_W = 20
LITE_V1 = {'G': (1,), '-G': (), 'kG': (0,), 'subgroup+torsion': (1,), 'order2': (0,), 'order4': (1,)}
LITE_V1_TE = dict(LITE_V1, identity=(1,))


class SW:
    def __init__(self, c):
        self.c, self.F = c, field_of(c)
        F = self.F
        self.a, self.b = F.el(c['a']), F.el(c['b'])
        self.G = (F.el(c['gx']), F.el(c['gy']))
        self.three = F.el([3] + [0] * (F.deg - 1))

    def add(self, P, Q):
        F = self.F
        if P is None:
            return Q
        if Q is None:
            return P
        if P[0] == Q[0]:
            if P[1] != Q[1] or F.is0(P[1]):
                return None
            l = F.mul(F.add(F.mul(self.three, F.mul(P[0], P[0])), self.a), F.inv(F.add(P[1], P[1])))
        else:
            l = F.mul(F.sub(Q[1], P[1]), F.inv(F.sub(Q[0], P[0])))
        x = F.sub(F.sub(F.mul(l, l), P[0]), Q[0])
        return (x, F.sub(F.mul(l, F.sub(P[0], x)), P[1]))

    def mul(self, k, P):
        R = None
        while k:
            if k & 1:
                R = self.add(R, P)
            P = self.add(P, P)
            k >>= 1
        return R

    def rhs(self, x, b=None):
        F = self.F
        return F.add(F.add(F.mul(F.mul(x, x), x), F.mul(self.a, x)), self.b if b is None else b)

    def lift(self, x, rng, b=None):
        y = fsqrt(self.F, self.rhs(x, b))
        if y is None:
            return None
        return (x, y if rng.randrange(2) else self.F.neg(y))

    def rand_point(self, rng, b=None):
        while True:
            P = self.lift(self.F.rand(rng), rng, b)
            if P:
                return P

    def no_root_x(self, rng):
        while True:
            x = self.F.rand(rng)
            if fsqrt(self.F, self.rhs(x)) is None:
                return x

    def flag(self, P):
        F = self.F
        return 0 if F.key(P[1]) <= F.key(F.neg(P[1])) else 128

    def enc(self, P, comp):
        F, p = self.F, self.F.p
        if P is None:
            x = y = F.zero(); m = 64
        else:
            x, y = P
            m = self.flag(P)
        if comp:
            return enc_ext(p, F.co(x), 1, m)
        return enc_ext(p, F.co(x), 0, 0) + enc_ext(p, F.co(y), 1, m)

    def size(self, comp):
        p, d = self.F.p, self.F.deg
        n0, n1 = fsize(p, 0), fsize(p, 1)
        return (d - 1) * n0 + n1 if comp else d * n0 + (d - 1) * n0 + n1


class TE:
    def __init__(self, c):
        self.c, self.F = c, field_of(c)
        F = self.F
        self.a, self.d = F.el(c['a']), F.el(c['b'])
        self.G = (F.el(c['gx']), F.el(c['gy']))

    def add(self, P, Q):
        F = self.F
        x1, y1 = P; x2, y2 = Q
        k = F.mul(self.d, F.mul(F.mul(x1, x2), F.mul(y1, y2)))
        return (F.mul(F.add(F.mul(x1, y2), F.mul(y1, x2)), F.inv(F.add(F.one(), k))),
                F.mul(F.sub(F.mul(y1, y2), F.mul(self.a, F.mul(x1, x2))), F.inv(F.sub(F.one(), k))))

    def mul(self, k, P):
        R = (self.F.zero(), self.F.one())
        while k:
            if k & 1:
                R = self.add(R, P)
            P = self.add(P, P)
            k >>= 1
        return R

    def xsq(self, y):
        F = self.F
        y2 = F.mul(y, y)
        den = F.sub(self.a, F.mul(self.d, y2))
        if F.is0(den):
            return None
        return F.mul(F.sub(F.one(), y2), F.inv(den))

    def lift(self, y, rng):
        v = self.xsq(y)
        if v is None:
            return None
        x = fsqrt(self.F, v)
        if x is None:
            return None
        return (x if rng.randrange(2) else self.F.neg(x), y)

    def rand_point(self, rng):
        while True:
            P = self.lift(self.F.rand(rng), rng)
            if P:
                return P

    def no_root_y(self, rng):
        while True:
            y = self.F.rand(rng)
            v = self.xsq(y)
            if v is not None and fsqrt(self.F, v) is None:
                return y

    def flag(self, P):
        F = self.F
        return 0 if F.key(P[0]) <= F.key(F.neg(P[0])) else 128

    def enc(self, P, comp):
        F, p = self.F, self.F.p
        if comp:
            return enc_ext(p, F.co(P[1]), 2, self.flag(P))
        return enc_ext(p, F.co(P[0]), 0, 0) + enc_ext(p, F.co(P[1]), 0, 0)

    def size(self, comp):
        p, d = self.F.p, self.F.deg
        return (d - 1) * fsize(p, 0) + fsize(p, 2) if comp else 2 * d * fsize(p, 0)


def curve_args(cid, c, comp, val, proj):
    return [[cid, c['N'], comp, val, proj], [c['p'], c['deg']], c['nr'], c['a'], c['b'], [c['r']], c['cof']]


def sw_points(E, rng, n):
    """(point, class).  Branches of check(): infinity; on curve & in subgroup; on curve, outside the
    subgroup (cofactor > 1: arbitrary x, and the small-order points r*P); off curve."""
    F, c = E.F, E.c
    pts = [(None, 'identity'), (E.G, 'G'), ((E.G[0], F.neg(E.G[1])), '-G')]
    for _ in range(n):
        k = rng.choice([2, 3, c['r'] - 1, rng.randrange(1, c['r'])])
        pts.append((E.mul(k, E.G), 'kG'))
    for _ in range(n):
        P = E.rand_point(rng)
        pts.append((P, 'on_curve_any' if c['h'] > 1 else 'on_curve_h1'))
    if c['h'] > 1:
        for _ in range(n):
            T = E.mul(c['r'], E.rand_point(rng))       # order divides the cofactor
            if T is not None:
                pts.append((T, 'cofactor_torsion'))
            if T is not None and c['deg'] == 1:
                S = E.add(T, E.mul(rng.randrange(1, c['r']), E.G))   # subgroup point + torsion point
                if S is not None:
                    pts.append((S, 'subgroup+torsion'))
    for _ in range(n):
        x, y = F.rand(rng), F.rand(rng)
        pts.append(((x, y), 'off_curve'))
    # off the curve by the smallest amount: right x, y + 1
    pts.append(((E.G[0], F.add(E.G[1], F.one())), 'off_curve_y+1'))
    return pts


def te_points(E, rng, n):
    F, c = E.F, E.c
    p = F.p
    pts = [((0, 1), 'identity'), ((0, p - 1), 'order2'), (E.G, 'G'), ((F.neg(E.G[0]), E.G[1]), '-G')]
    for _ in range(n):
        k = rng.choice([2, 3, c['r'] - 1, rng.randrange(1, c['r'])])
        pts.append((E.mul(k, E.G), 'kG'))
    P0 = E.lift(0, rng)                               # y = 0: order-4 points where 1/a is a square
    if P0:
        pts.append((P0, 'order4'))
    for _ in range(n):
        pts.append((E.rand_point(rng), 'on_curve_any'))
    for _ in range(n):
        T = E.mul(c['r'], E.rand_point(rng))
        pts.append((T, 'cofactor_torsion'))
        pts.append((E.add(T, E.mul(rng.randrange(1, c['r']), E.G)), 'subgroup+torsion'))
    for _ in range(n):
        pts.append(((F.rand(rng), F.rand(rng)), 'off_curve'))
    pts.append(((E.G[0], F.add(E.G[1], 1)), 'off_curve_y+1'))
    return pts


def point_mutations(rng, E, bs, comp, kind):
    """byte-level mutations of a valid encoding: (bytes, class)"""
    p, deg = E.F.p, E.F.deg
    c0 = fsize(p, 0)
    out = []
    # all flag combinations in the top two bits of the last byte (SW: 11 = both flags -> UnexpectedFlags;
    # 01 = infinity with arbitrary coordinates; TE: only bit 7 is a flag, bit 6 is a stray bit)
    for top in (0, 64, 128, 192):
        b = list(bs); b[-1] = (b[-1] & 63) | top
        out.append((b, 'flags%02x' % top))
    # a coordinate replaced by an integer >= p
    ncoord = len(bs) // c0
    j = rng.randrange(max(1, ncoord))
    b = list(bs)
    b[j * c0:(j + 1) * c0] = le(bad_int(rng, p, c0), c0)
    out.append((b[:len(bs)], 'coord_ge_p'))
    # stray bits between the modulus and the flags
    b = list(bs); b[-1] |= 1 << rng.randrange(8)
    out.append((b, 'stray_bit'))
    b = list(bs); i = rng.randrange(len(b)); b[i] ^= 1 << rng.randrange(8)
    out.append((b, 'bitflip_any'))
    out.append((list(bs) + [rng.randrange(256) for _ in range(rng.randrange(1, 40))], 'valid+trailing'))
    out.append(([rng.randrange(256) for _ in range(len(bs))], 'random_bytes'))
    out.append(([255] * len(bs), 'all_ones'))
    return out


def special_rhs_x(E, rng, per_class):
    """x = s + t u in Fp2 = Fp[u]/(u^2 - nr) with Im g(x) = 0 (g(x) in the base field: residue / non-residue of Fp) or with
    Re g(x) = 0 (purely imaginary g(x)); both conditions are quadratics in one coordinate once the other is fixed"""
    F = E.F; p = F.p; nr = F.nr if hasattr(F, 'nr') else None
    a0, a1 = E.a; b0, b1 = E.b
    want = {'rhs_base_qnr': per_class, 'rhs_base_qr': per_class, 'rhs_imaginary': per_class}
    out = []
    tries = 0
    while any(v > 0 for v in want.values()) and tries < 4000:
        tries += 1
        if tries % 2:
            # Im g = 3 t s^2 + a1 s + (nr t^3 + a0 t + b1) = 0, t fixed
            t = rng.randrange(1, p)
            A, B, C = 3 * t % p, a1, (nr * t * t * t + a0 * t + b1) % p
            fix = lambda s_: (s_, t)
        else:
            # Re g = 3 nr s t^2 + a1 nr t + (s^3 + a0 s + b0) = 0, s fixed
            s0 = rng.randrange(1, p)
            A, B, C = 3 * nr * s0 % p, a1 * nr % p, (s0 * s0 * s0 + a0 * s0 + b0) % p
            fix = lambda t_: (s0, t_)
        if A == 0:
            continue
        d = sqrt_p((B * B - 4 * A * C) % p, p)
        if d is None:
            continue
        z = (-B + (d if rng.randrange(2) else -d)) * pow(2 * A, -1, p) % p
        x = fix(z)
        g = E.rhs(x)
        if tries % 2:
            assert g[1] == 0
            if g[0] == 0:
                continue
            cl = 'rhs_base_qr' if pow(g[0], (p - 1) // 2, p) == 1 else 'rhs_base_qnr'
        else:
            assert g[0] == 0
            if g[1] == 0:
                continue
            cl = 'rhs_imaginary'
        if want[cl] > 0:
            want[cl] -= 1
            out.append((x, cl))
    return out


def gen_curve(rng, scale, cid, c, op_de, op_ck):
    kind = c['kind']
    E = SW(c) if kind == 'sw' else TE(c)
    F = E.F
    big = c['deg'] >= 2 or c['p'].bit_length() > 300
    lite = scale == 1 and weight(c) > LITE_W
    lite_v1 = LITE_V1 if kind == 'sw' else LITE_V1_TE
    n = DENSE.get(cid, 1 if big else 2) * (1 if scale == 1 else 4)
    pts = sw_points(E, rng, n) if kind == 'sw' else te_points(E, rng, n)
    tag = '%s%d' % (kind, cid)
    for P, cl in pts:
        for comp in (0, 1):
            if cl.startswith('off_curve') and comp:
                continue            # an off-curve pair has no compressed encoding
            bs = E.enc(P, comp)
            for val in (0, 1):
                projs = (0, 1) if (val == 1 or scale > 1) else (0,)
                if lite:
                    if val and comp not in lite_v1.get(cl, (0, 1)):
                        continue
                    projs = (rng.randrange(2),) if (val == 0 or cl in ('G', 'identity')) else (0,)
                for proj in projs:
                    yield op_de, curve_args(cid, c, comp, val, proj) + [bs], 'de/%s/c%dv%d' % (cl, comp, val)
    # compressed: x (SW) / y (TE) without a square root -> InvalidData in every mode
    for _ in range(2 * n):
        if kind == 'sw':
            x = E.no_root_x(rng)
            bs = enc_ext(F.p, F.co(x), 1, rng.choice([0, 128]))
        else:
            y = E.no_root_y(rng)
            bs = enc_ext(F.p, F.co(y), 2, rng.choice([0, 128]))
        val = rng.randrange(2)
        yield op_de, curve_args(cid, c, 1, val, rng.randrange(2)) + [bs], 'de/no_root/c1v%d' % val
    if kind == 'sw' and c['deg'] == 2:
        # quadratic-extension coordinates: x whose right-hand side g(x) = x^3 + a x + b lies in the BASE field (c1 = 0; a
        # base-field non-residue still has a - purely imaginary - root in the extension, a residue a base-field one) or is
        # purely imaginary (c0 = 0): the special cases of QuadExtField::sqrt.  Solved here, not sampled (probability 1/p).
        for x, xcl in special_rhs_x(E, rng, 1 if lite else 2):
            bs = enc_ext(F.p, F.co(x), 1, rng.choice([0, 128]))
            for val in ((0,) if lite else (0, 1)):
                yield op_de, curve_args(cid, c, 1, val, rng.randrange(2)) + [bs], 'de/%s/c1v%d' % (xcl, val)
    if kind == 'te':
        # TE: denominator a - d y^2 = 0 has no solution on complete curves; y = +-1 gives x = 0 (identity, order 2)
        for y in (1, F.p - 1, 0):
            bs = enc_ext(F.p, [y], 2, rng.choice([0, 128]))
            yield op_de, curve_args(cid, c, 1, 1, 0) + [bs], 'de/y_special/c1v1'
    # byte-level mutations of valid encodings
    for P, cl in (pts[1:2] if lite else pts[1:4]):
        for comp in (0, 1):
            for mb, mc in point_mutations(rng, E, E.enc(P, comp), comp, kind):
                val = rng.randrange(2)
                if lite and mc not in ('flagsc0', 'flags40', 'coord_ge_p', 'random_bytes', 'all_ones'):
                    val = 0         # the mutated encoding may still be a curve point: no r*P on the heavy curves
                yield op_de, curve_args(cid, c, comp, val, rng.randrange(2)) + [mb], 'de/%s/c%dv%d' % (mc, comp, val)
    # EVERY truncation length 0..size-1
    for comp in (0, 1):
        bs = E.enc(pts[3][0], comp)
        assert len(bs) == E.size(comp)
        cuts = range(len(bs))
        if lite:                    # heavy curves, quick tier: every 5th length and both sides of each coordinate boundary
            c0 = fsize(F.p, 0)
            cuts = sorted(set(list(range(0, len(bs), 5)) + [1, len(bs) - 1, len(bs) - 2] +
                              [k * c0 + d for k in range(1, len(bs) // c0 + 1) for d in (-1, 0, 1)]) & set(range(len(bs))))
        for cut in cuts:
            val = rng.randrange(2)
            yield op_de, curve_args(cid, c, comp, val, rng.randrange(2)) + [bs[:cut]], 'de/truncated/c%dv%d' % (comp, val)
    # Valid::check and batch_check (affine and projective; first failure anywhere in the batch)
    good = [P for P, cl in pts if cl in ('G', '-G', 'kG', 'identity')]
    bad = [P for P, cl in pts if cl in ('on_curve_any', 'cofactor_torsion', 'subgroup+torsion', 'off_curve', 'off_curve_y+1', 'order2', 'order4')]

    def aff(P):
        if kind == 'sw':
            return (F.co(F.zero()) * 2 + [1]) if P is None else (F.co(P[0]) + F.co(P[1]) + [0])
        return F.co(P[0]) + F.co(P[1])

    def prj(P):
        lam = rng.choice([F.one(), F.rand(rng), F.el([2] + [0] * (F.deg - 1))])
        if F.is0(lam):
            lam = F.one()
        if kind == 'sw':
            if P is None:
                return F.co(F.rand(rng)) + F.co(F.rand(rng)) + F.co(F.zero())
            l2 = F.mul(lam, lam)
            return F.co(F.mul(P[0], l2)) + F.co(F.mul(P[1], F.mul(l2, lam))) + F.co(lam)
        return F.co(F.mul(P[0], lam)) + F.co(F.mul(P[1], lam)) + F.co(F.mul(F.mul(P[0], P[1]), lam)) + F.co(lam)
    for P, cl in pts:
        for proj in (0, 1):
            if lite and cl in ('-G', 'kG', 'subgroup+torsion', 'order2', 'order4'):
                continue
            if lite and proj != (1 if cl in ('G', 'identity', 'off_curve') else 0):
                continue
            yield op_ck, curve_args(cid, c, 0, 0, proj) + [[0], (prj if proj else aff)(P)], 'check/%s/p%d' % (cl, proj)
    for _ in range(1 if lite else 3 * (1 if scale == 1 else 3)):
        proj = rng.randrange(2)
        k = rng.randrange(0, 2 if lite else 5)
        batch = [rng.choice(good) for _ in range(k)]
        cl = 'all_good'
        if bad and rng.randrange(3):
            batch.insert(rng.randrange(len(batch) + 1), rng.choice(bad))
            cl = 'one_bad'
        yield op_ck, curve_args(cid, c, 0, 0, proj) + [[1]] + [(prj if proj else aff)(P) for P in batch], \
            'batch_check/%s/n%d/p%d' % (cl, len(batch), proj)
    # batches whose invalid members CANCEL (every element must be validated on its own: a check of the sum, or of a
    # random linear combination with correlated coefficients, accepts them): [P, -P], [G + T, G - T], T + T' = O, each
    # at random positions among valid points.  P ranges over on-curve points outside the subgroup (h > 1 only).
    rogue = [P for P, cl in pts if cl in ('on_curve_any', 'cofactor_torsion', 'subgroup+torsion', 'order2', 'order4') and P is not None]

    def negp(P):
        return (P[0], F.neg(P[1])) if kind == 'sw' else (F.neg(P[0]), P[1])
    if rogue:
        for _ in range(1 if lite else 2 * (1 if scale == 1 else 3)):
            for proj in (0, 1):
                P = rng.choice(rogue)
                k = rng.randrange(0, 2 if lite else 4)
                batch = [rng.choice(good) for _ in range(k)]
                batch.insert(rng.randrange(len(batch) + 1), P)
                batch.insert(rng.randrange(len(batch) + 1), negp(P))
                if rng.randrange(2):                      # a second cancelling pair
                    Q = rng.choice(rogue)
                    batch.insert(rng.randrange(len(batch) + 1), negp(Q))
                    batch.insert(rng.randrange(len(batch) + 1), Q)
                yield op_ck, curve_args(cid, c, 0, 0, proj) + [[1]] + [(prj if proj else aff)(P_) for P_ in batch], \
                    'batch_check/cancelling_bad/n%d/p%d' % (len(batch), proj)


def gen_toy_exhaustive(rng, scale):
    """every byte string of the encoding length (1 byte compressed, 2 bytes uncompressed)"""
    for cid in TOY:
        c = CURVES[cid]
        op = 'sw_de' if c['kind'] == 'sw' else 'te_de'
        for b in range(256):
            for val in (0, 1):
                for proj in (0, 1):
                    yield op, curve_args(cid, c, 1, val, proj) + [[b]], 'toy/exhaustive1/c1v%d' % val
        full = scale > 1 or cid in (101, 104, 120)
        for v in range(65536):
            if not full and (v * 2654435761 >> 7) % 16:
                continue
            for val in ((0, 1) if scale > 1 else (1,)):
                yield op, curve_args(cid, c, 0, val, 0) + [[v & 255, v >> 8]], 'toy/exhaustive2/c0v%d' % val


# ---------------------------------------------------------------------------------------
# curves/bls12_381: ZCash encoding
def zc_enc(E, P, comp, flags=None):
    F, p = E.F, E.F.p
    if P is None:
        cs = [0] * (F.deg * (1 if comp else 2))
        fl = 64
    else:
        cs = F.co(P[0])[::-1] + ([] if comp else F.co(P[1])[::-1])
        fl = 32 if (comp and F.key(P[1]) > F.key(F.neg(P[1]))) else 0
    if comp:
        fl |= 128
    bs = []
    for v in cs:
        bs += be(v, 48)
    bs[0] |= fl if flags is None else flags
    return bs


def gen_zc(rng, scale):
    for cid in (0, 1):
        c = ZC[cid]
        E = SW(c)
        F = E.F
        n = 1 if scale == 1 else 4
        pts = sw_points(E, rng, n)
        # uncompressed + validate: no curve-equation test in the override; the endomorphism subgroup test has to
        # reject: random (x, y) (a point of some curve y^2 = x^3 + b'), points of the other twists with b' = 4 k,
        # the singular curve b' = 0, small-order points
        for k in (0, 1, 2, 3, 5, 16):
            bb = F.el([(4 * k) % F.p] + [0] * (F.deg - 1)) if cid == 0 else F.mul(E.b, F.el([k] + [0] * (F.deg - 1)))
            for _ in range(n):
                P = E.rand_point(rng, bb)
                pts.append((P, 'twist_b*%d' % k))
        pts.append(((F.zero(), F.zero()), 'origin'))
        # (s^2 x, s^3 y) for (x, y) in the subgroup: a point of the isomorphic curve y^2 = x^3 + s^6 b.
        #   s in F_p^*, s^6 != 1: passes the endomorphism subgroup test although it is NOT on the curve:
        #   DEFECT-1 (NOTES.md): scaled subgroup points (isomorphic curve) -- fixed by af4ede0, always generated
        #   s in F_p2 \ F_p (G2): the twist-Frobenius leaves the curve, the test fails as it should
        scal = []
        if DEFECT1:
            scal += [(F.el([3] + [0] * (F.deg - 1)), 'DEFECT1_scaled_subgroup_point'),
                     (F.el([rng.randrange(2, F.p)] + [0] * (F.deg - 1)), 'DEFECT1_scaled_subgroup_point')]
        if F.deg == 2:
            scal += [((0, 1), 'scaled_by_u'), ((1, 1), 'scaled_by_1+u'), (F.rand(rng), 'scaled_by_fp2')]
            # a G1 point read as a G2 pair: r*P = O on y^2 = x^3 + 4 over F_p2, not on the twist
            E1 = SW(ZC[0])
            Q = E1.mul(rng.randrange(2, c['r']), E1.G)
            pts.append((((Q[0], 0), (Q[1], 0)), 'g1_point_in_fp2'))
        for sc, cl in scal:
            Q = E.mul(rng.randrange(2, c['r']), E.G)
            s2 = F.mul(sc, sc)
            pts.append(((F.mul(s2, Q[0]), F.mul(F.mul(s2, sc), Q[1])), cl))
        y2 = fsqrt(F, E.b)
        if y2 is not None:
            pts.append(((F.zero(), y2), 'x=0'))          # order-3 point (0, sqrt b)
        for P, cl in pts:
            for comp in (0, 1):
                if comp and (cl.startswith('off_curve') or cl.startswith('twist') or cl == 'origin' or 'scaled' in cl or cl == 'g1_point_in_fp2'):
                    continue
                bs = zc_enc(E, P, comp)
                for val in (0, 1):
                    for proj in ((0, 1) if scale > 1 else (rng.randrange(2),)):
                        yield 'zc_de', curve_args(cid, c, comp, val, proj) + [bs], 'zc/%s/c%dv%d' % (cl, comp, val)
        G, kG = E.G, E.mul(rng.randrange(2, c['r']), E.G)
        for comp in (0, 1):
            size = 48 * F.deg * (1 if comp else 2)
            for P, pc in ((G, 'G'), (kG, 'kG'), (None, 'inf')):
                base = zc_enc(E, P, comp, flags=0)
                # all 8 combinations of the three flag bits (get_flags: sort flag without compression or with
                # infinity -> InvalidData; compression flag not matching the mode -> UnexpectedFlags)
                for fl in range(8):
                    b = list(base); b[0] |= fl << 5
                    val = rng.randrange(2)
                    yield 'zc_de', curve_args(cid, c, comp, val, rng.randrange(2)) + [b], 'zc/flags%d/%s/c%dv%d' % (fl, pc, comp, val)
            # infinity flag with a non-zero byte somewhere (must be all-zero)
            for _ in range(3 * n):
                b = zc_enc(E, None, comp)
                i = rng.randrange(size)
                b[i] |= (1 << rng.randrange(5)) if i == 0 else (1 << rng.randrange(8))
                yield 'zc_de', curve_args(cid, c, comp, rng.randrange(2), 0) + [b], 'zc/inf_nonzero/c%d' % comp
            # a coordinate >= p (top three bits are flags: the integer is taken from the low 381+ bits)
            for _ in range(3 * n):
                b = zc_enc(E, kG, comp)
                j = rng.randrange(len(b) // 48)
                v = rng.choice([F.p, F.p + 1, (1 << 381) - 1, (1 << 384) - 1 if j else (1 << 381) - 1, F.p + rng.randrange(1 << 20)])
                chunk = be(v, 48)
                if j == 0:
                    chunk[0] = (chunk[0] & 31) | (b[0] & 224)
                b[j * 48:(j + 1) * 48] = chunk
                yield 'zc_de', curve_args(cid, c, comp, rng.randrange(2), 0) + [b], 'zc/coord_ge_p/c%d' % comp
            # EVERY truncation length
            full = zc_enc(E, kG, comp)
            for cut in range(size):
                yield 'zc_de', curve_args(cid, c, comp, rng.randrange(2), rng.randrange(2)) + [full[:cut]], 'zc/truncated/c%d' % comp
            for _ in range(2 * n):
                yield 'zc_de', curve_args(cid, c, comp, 1, 0) + [full + [rng.randrange(256) for _ in range(rng.randrange(1, 60))]], 'zc/valid+trailing/c%d' % comp
                rb = [rng.randrange(256) for _ in range(size)]
                yield 'zc_de', curve_args(cid, c, comp, 1, 0) + [rb], 'zc/random_bytes/c%d' % comp
                rb = list(rb); rb[0] = (rb[0] & 31) | (128 if comp else 0)
                yield 'zc_de', curve_args(cid, c, comp, 1, 0) + [rb], 'zc/random_bytes_goodflags/c%d' % comp
            yield 'zc_de', curve_args(cid, c, comp, 1, 0) + [[255] * size], 'zc/all_ones/c%d' % comp
            yield 'zc_de', curve_args(cid, c, comp, 1, 0) + [[0] * size], 'zc/all_zero/c%d' % comp
        # compressed x without a root
        for _ in range(3 * n):
            x = E.no_root_x(rng)
            bs = []
            for v in F.co(x)[::-1]:
                bs += be(v, 48)
            bs[0] |= 128 | rng.choice([0, 32])
            yield 'zc_de', curve_args(cid, c, 1, rng.randrange(2), 0) + [bs], 'zc/no_root/c1'


# ---------------------------------------------------------------------------------------
# PairingOutput
def po_field(e):
    return target_field(e['p'], e['tower'], e['nr2'], e['nr6'], e['nr3'])


def po_nr(e):
    """a[3] of a po_de case: tower 32 (Fp6 = 2 over 3): [nr3]; towers 4 / 12: [nr2, nr6_c0, nr6_c1]"""
    return [e['nr3']] if e['tower'] == 32 else [e['nr2']] + e['nr6']


def ord_mod(q, d):
    """multiplicative order of q modulo the prime d = degree of the smallest subfield F_{q^m} holding the elements of order d"""
    m, t = 1, q % d
    while t != 1:
        t = t * q % d
        m += 1
    return m


# proper subfields that are visible as leading coordinates of the tower representation: tower -> [(degree, #coords)]
PO_SUBFIELDS = {4: [(1, 1), (2, 2)], 12: [(1, 1), (2, 2), (6, 6)], 32: [(1, 1), (3, 3)]}


def gen_po(rng, scale):
    """PairingOutput::deserialize_with_mode.  Validate::Yes must accept EXACTLY the x with x^r = 1 (the model computes
    x^r by plain square-and-multiply in the tower).  Element classes per engine: 1, the GT generator and powers, -1,
    -g; for EVERY prime d <= 50 dividing q^k - 1 an element of order d (gt.json holds one, x; the group is cyclic, so
    x^j for a random j is a random element of that order; it lies in the subfield F_{q^m}, m = ord_d(q): tag sub<m>),
    the product of a GT element with it, the product of two of them; random elements of the full field and of each
    proper subfield visible in the tower; zero.  All four (Compress, Validate) modes."""
    for cid in sorted(PO):
        e = PO[cid]
        p, tw, k, r = e['p'], e['tower'], e['deg'], e['r']
        F = po_field(e)
        g = F.el(GT[cid]['g'])
        small = {int(d): F.el(c) for d, c in GT[cid]['small'].items()}
        size = k * fsize(p, 0)
        heavy = k * p.bit_length() ** 2 > 3000000 and tw == 32      # cp6_782, bw6_767, bw6_761: keep the quick tier small
        nr = po_nr(e)
        args = lambda c, v, bs: [[cid, e['N'], c, v], [p], [tw], nr, [r], bs]
        tag = 'po%d' % cid
        gk = fpow(F, g, rng.randrange(2, r))
        els = [(F.one(), 'one'), (g, 'order_r'), (gk, 'order_r'), (F.mul(g, g), 'order_r'),
               (F.neg(F.one()), 'minus_one'), (F.neg(g), 'order_2r'), (F.zero(), 'zero'),
               (F.rand(rng), 'random_elt')]
        for _ in range(scale - 1):
            els.append((fpow(F, g, rng.randrange(2, r)), 'order_r'))
            els.append((fpow(F, gk, rng.randrange(2, 1 << 20)), 'order_r'))
            els.append((F.rand(rng), 'random_elt'))
        # random elements of the proper subfields that are visible in the tower (leading coordinates, the others zero)
        for m, nco in PO_SUBFIELDS[tw]:
            for _ in range(1 if scale == 1 else 3):
                els.append((F.el([rng.randrange(p) for _ in range(nco)] + [0] * (k - nco)), 'subfield_elt/sub%d' % m))
        # small prime orders d | q^k - 1
        sm = []
        for d in sorted(small):
            m = ord_mod(p, d)
            assert k % m == 0
            for _ in range(1 if scale == 1 else 8):
                x = fpow(F, small[d], rng.randrange(1, d))
                sm.append((d, m, x))
                els.append((x, 'small_order/d%d/sub%d' % (d, m)))
                gg = rng.choice([g, gk])
                els.append((F.mul(gg, x), 'order_r*small/d%d/sub%d' % (d, m)))
        # products of two / of all small-order elements (composite small order), with and without a GT factor
        if len(sm) >= 2:
            for _ in range(1 if scale == 1 else 12):
                (d1, m1, x1), (d2, m2, x2) = rng.sample(sm, 2)
                if d1 == d2:
                    continue
                y = F.mul(x1, x2)
                els.append((y, 'small_order/d%dx%d' % (min(d1, d2), max(d1, d2))))
                els.append((F.mul(gk, y), 'order_r*small/d%dx%d' % (min(d1, d2), max(d1, d2))))
            y = F.one()
            for d in sorted(small):
                y = F.mul(y, small[d])
            els.append((y, 'small_order/all'))
            els.append((F.mul(g, y), 'order_r*small/all'))
        for x, cl in els:
            bs = enc_ext(p, F.co(x), 0, 0)
            modes = MODES
            if scale == 1 and cl in ('one', 'minus_one', 'zero', 'order_2r'):
                modes = [(1, 1), (0, 0), (0, 1)]
            for (c, v) in modes:
                yield 'po_de', args(c, v, bs), 'po/%s/v%d' % (cl, v)
        full = enc_ext(p, F.co(g), 0, 0)
        step = 1 if (scale > 1 or tw == 4) else (29 if heavy else 11)
        n0 = fsize(p, 0)
        cuts = set(range(0, size, step)) | {size - 1, size - 2, 1} | {j * n0 + dd for j in range(1, k) for dd in (-1, 0, 1)}
        for cut in sorted(c for c in cuts if 0 <= c < size):
            yield 'po_de', args(1, rng.randrange(2), full[:cut]), 'po/truncated'
        for _ in range(2 * scale):
            bs = list(full); j = rng.randrange(k)
            bs[j * n0:(j + 1) * n0] = le(bad_int(rng, p, n0), n0)
            yield 'po_de', args(1, rng.randrange(2), bs), 'po/coord_ge_p'
            yield 'po_de', args(1, 1, full + [rng.randrange(256)] * rng.randrange(1, 9)), 'po/valid+trailing'
            yield 'po_de', args(1, 1, [rng.randrange(256) for _ in range(size)]), 'po/random_bytes'


def gen(rng, tier):
    scale = 1 if tier == 'quick' else 6
    yield from gen_fields(rng, scale)
    for cid in sorted(CURVES):
        c = CURVES[cid]
        if c['kind'] == 'sw':
            yield from gen_curve(rng, scale, cid, c, 'sw_de', 'sw_check')
        else:
            yield from gen_curve(rng, scale, cid, c, 'te_de', 'te_check')
    yield from gen_zc(rng, scale)
    yield from gen_po(rng, scale)
    yield from gen_toy_exhaustive(rng, scale)


# ---------------------------------------------------------------------------------------
def parse_out(line):
    return [[] if t == '_' else [(-int(x[1:], 16) if x.startswith('-') else int(x, 16)) for x in t.split(',')]
            for t in line.split(' ')]


def adv_size(case):
    a = case['args']
    op = case['op']
    if op == 'f_de':
        return a[2][0] * fsize(a[1][0], 0)
    if op == 'po_de':
        return (6 if a[2][0] == 32 else a[2][0]) * fsize(a[1][0], 0)
    p, deg = a[1]
    comp = a[0][2]
    if op == 'zc_de':
        return 48 * deg * (1 if comp else 2)
    if op == 'sw_de':
        return (deg - 1) * fsize(p, 0) + fsize(p, 1) if comp else (2 * deg - 1) * fsize(p, 0) + fsize(p, 1)
    if op == 'te_de':
        return (deg - 1) * fsize(p, 0) + fsize(p, 2) if comp else 2 * deg * fsize(p, 0)
    return None


def extra(ctx, cases, lines, impl_out, model_out):
    """(1) no decoder consumes more than the advertised size (and exactly that on success);
       (2) every point the Rust code returned under Validate::Yes is re-validated by the model's
           independent oracle: curve equation and r*P = O with the proved double-and-add."""
    if impl_out is None:
        return []
    bad = []
    re_lines, re_idx = [], []
    for k, c in enumerate(cases):
        op = c['op']
        if op not in ('f_de', 'po_de', 'sw_de', 'te_de', 'zc_de') or impl_out[k] is None:
            continue
        o = parse_out(impl_out[k])
        if o[0] != [0]:
            continue
        a = c['args']
        size = adv_size(c)
        consumed = o[2][0] if op in ('f_de', 'po_de') else o[-1][0]
        inlen = len(a[3] if op == 'f_de' else a[5] if op == 'po_de' else a[7])
        if consumed != size or consumed > inlen:
            bad.append(({'case': c, 'line': lines[k], 'impl': impl_out[k], 'model': model_out[k] if model_out else None,
                         'why': 'consumed %d bytes, advertised size %d' % (consumed, size)}, 'over-read'))
        if op in ('sw_de', 'te_de', 'zc_de') and a[0][3] == 1:
            deg = a[1][1]
            proj = a[0][4]
            if proj:
                continue        # the projective wrapper returns From<Affine> of the same point
            if op == 'te_de':
                pt = o[1] + o[2]
                rop = 'te_revalid'
            else:
                pt = o[1] + o[2] + o[3]
                rop = 'sw_revalid'
            ra = [list(x) for x in a[:7]] + [pt]
            re_lines.append('%d:%s %s' % (OPS[rop], rop, ' '.join((','.join('%x' % v for v in x) if x else '_') for x in ra)))
            re_idx.append(k)
    if re_lines:
        model_bin = '%s/bin/model_C10' % ((ctx['BUILD'] + '/alt') if ctx.get('ALT') else ctx['BUILD'])
        outs = []
        nsh = 16
        procs = []
        for s in range(nsh):
            part = re_lines[s::nsh]
            if not part:
                procs.append(None)
                continue
            procs.append(subprocess.Popen(['sh', '-c', 'ulimit -s unlimited 2>/dev/null; exec %s' % model_bin],
                                          stdin=subprocess.PIPE, stdout=subprocess.PIPE, text=True))
        res = [None] * len(re_lines)
        import threading

        def work(s, pr):
            o, _ = pr.communicate('\n'.join(re_lines[s::nsh]) + '\n')
            for j, l in enumerate(o.splitlines()):
                res[s + j * nsh] = l
        ths = [threading.Thread(target=work, args=(s, pr)) for s, pr in enumerate(procs) if pr]
        [t.start() for t in ths]
        [t.join() for t in ths]
        for j, k in enumerate(re_idx):
            if res[j] != '0 1 1':
                c = cases[k]
                bad.append(({'case': c, 'line': lines[k], 'impl': impl_out[k], 'model': model_out[k] if model_out else None,
                             'why': 'point returned under Validate::Yes fails the validity oracle (on_curve, r*P=O) = %s' % res[j]},
                            'invalid point returned'))
        ctx['notes'].append('validity oracle re-run on %d points returned under Validate::Yes' % len(re_lines))
    return bad


def nontrivial(case, out):
    return len(case['args'][-1]) > 0


def xcheck_ok(case):
    # kernel re-evaluation (vm_compute on stdlib Z) only on the toy configurations
    return case['args'][0][0] >= (40 if case['op'] == 'f_de' else 100) and case['op'] != 'po_de'


XCHECK = {'quick': 160, 'thorough': 800}
RULE = ('byte strings offered to deserialize_with_mode in all 4 modes (x affine/projective): valid encodings of identity, '
        '+-G, kG; on-curve points outside the subgroup (arbitrary x / y, cofactor-torsion points r*P, subgroup+torsion); '
        'off-curve (x, y) incl. y+1 and, for the bls12_381 override, points of the other twists y^2 = x^3 + 4k and of the '
        'singular curve; x (y) without a square root; every flag combination (SW 2 bits, TE, ZCash 3 bits), infinity with '
        'non-zero bits, stray bits; integers >= p in any coordinate; EVERY truncation length 0..size-1; longer-than-needed '
        'input; random / all-ones / all-zero bytes; PairingOutput (8 engines: target fields Fp12 = 2-3-2 [bls12_381 x2, bn254], '
        'Fp4 [mnt4_298], Fp6 = 2 over 3 [cp6_782, bw6_767, bw6_761, mnt6_298]): 1, order r (generator, powers), -1, order 2r, 0, '
        'random, random elements of each proper subfield, an element of order d for EVERY prime d <= 50 dividing q^k - 1 '
        '(tagged with the subfield F_{q^m}, m = ord_d(q), it lies in), GT element x small-order element, products of '
        'small-order elements, all 4 (Compress, Validate) modes; '
        'Valid::check / batch_check with the failing element at any position; toy curves (h = 1, 2, 4, 8): every 1-byte string '
        'and every 2-byte string; curve grid = every shipped SW / TE configuration with cofactor > 1 (base field Fq, Fq2, Fq3; '
        'bls12_377 G1/G2/G1-TE, bw6_761, bw6_767, cp6_782, mnt4_298/753 G2, mnt6_298/753 G2, bls12_381, bn254 G2, jubjub, '
        'bandersnatch, ed25519, curve25519, ed_on_{bls12_377, bn254, cp6_782, bw6_761, mnt4_298, mnt4_753}) + cofactor-one curves + '
        'toy curves whose COFACTOR is written with several limbs ([2,0], [4,0,0], [1,0], [1,0,0,0], and [1,3] = 3*2^64+1 over '
        'a 71-bit field); the COFACTOR slice is passed limb by limb; '
        'non-trivial = non-empty payload; distinct = distinct case lines')
TRUSTED = ['props/C10/configs.json, gt.json (constants dumped from the compiled crates; re-compared with the compiled constants by '
           'the harness in every case; gt.json holds inputs only: one element of order r and one of each small prime order per '
           'target field, computed by mkconfigs.py as u^((q^k-1)/d))',
           'the byte strings are generator inputs (built by prop.py), not expected values',
           'imported model files of package C09 (coq/C09/{Bytes,FpCodec,PointCodec,Exec}.v)']
ASSUMPTIONS = ['a field element is modelled by its standard-form integer; reader = slice reader (read_exact fails on short input)',
               'Field::sqrt is modelled by a specification-level Tonelli-Shanks (only existence of a root matters: both roots are '
               're-sorted); mul_affine(P, r).is_zero() and the shipped fast subgroup tests (bls12_381 G1/G2, bn254 G2 '
               'endomorphism tests; property C12) are modelled by r*P = O with the affine group law',
               'Projective::batch_check: normalize_batch is modelled pointwise (the shared inversion is an optimisation)']
HYPOTHESES = ['CodecOK of the base-field codec (proved for Fp and lifted through towers in C09)',
              'cof <> [] (non-empty COFACTOR slice)', '1 <= nb, 1 <= d (ZCash override: bytes per coordinate, coordinates)',
              'field_theory of the base field / feqb decides equality (curve-equation statements)',
              'sqrt oracle specification (sqrt_some / sqrt_none)',
              'associativity of the point addition (double-and-add = r-fold sum)']
