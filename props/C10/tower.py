"""Plain tower-field arithmetic for the C10 case generator (inputs only: the generator needs
points / target-group elements to encode; what they decode to is decided by the Rust code and
the Coq model).  Elements are nested tuples of ints; mirrors coq/Base/Field.v (schoolbook)."""


class Fp:
    deg = 1

    def __init__(self, p):
        self.p = p

    def zero(self): return 0
    def one(self): return 1 % self.p
    def add(self, a, b): return (a + b) % self.p
    def sub(self, a, b): return (a - b) % self.p
    def neg(self, a): return (-a) % self.p
    def mul(self, a, b): return a * b % self.p
    def inv(self, a): return pow(a, -1, self.p) if a % self.p else 0
    def co(self, a): return [a]
    def el(self, c): return c[0] % self.p
    def rand(self, rng): return rng.randrange(self.p)
    def key(self, a): return (a,)
    def is0(self, a): return a == 0


class Quad:
    def __init__(self, B, nr):
        self.B, self.nr, self.deg, self.p = B, nr, 2 * B.deg, B.p

    def zero(self): return (self.B.zero(), self.B.zero())
    def one(self): return (self.B.one(), self.B.zero())
    def add(self, a, b): return (self.B.add(a[0], b[0]), self.B.add(a[1], b[1]))
    def sub(self, a, b): return (self.B.sub(a[0], b[0]), self.B.sub(a[1], b[1]))
    def neg(self, a): return (self.B.neg(a[0]), self.B.neg(a[1]))

    def mul(self, a, b):
        B = self.B
        return (B.add(B.mul(a[0], b[0]), B.mul(self.nr, B.mul(a[1], b[1]))),
                B.add(B.mul(a[0], b[1]), B.mul(a[1], b[0])))

    def inv(self, a):
        B = self.B
        n = B.inv(B.sub(B.mul(a[0], a[0]), B.mul(self.nr, B.mul(a[1], a[1]))))
        return (B.mul(a[0], n), B.mul(B.neg(a[1]), n))

    def co(self, a): return self.B.co(a[0]) + self.B.co(a[1])
    def el(self, c): return (self.B.el(c[:self.B.deg]), self.B.el(c[self.B.deg:]))
    def rand(self, rng): return (self.B.rand(rng), self.B.rand(rng))
    def key(self, a): return self.B.key(a[1]) + self.B.key(a[0])      # Ord: last coordinate first
    def is0(self, a): return self.B.is0(a[0]) and self.B.is0(a[1])


class Cubic:
    def __init__(self, B, nr):
        self.B, self.nr, self.deg, self.p = B, nr, 3 * B.deg, B.p

    def zero(self): return (self.B.zero(),) * 3
    def one(self): return (self.B.one(), self.B.zero(), self.B.zero())
    def add(self, a, b): return tuple(self.B.add(x, y) for x, y in zip(a, b))
    def sub(self, a, b): return tuple(self.B.sub(x, y) for x, y in zip(a, b))
    def neg(self, a): return tuple(self.B.neg(x) for x in a)

    def mul(self, a, b):
        B, nr = self.B, self.nr
        m = B.mul
        return (B.add(m(a[0], b[0]), m(nr, B.add(m(a[1], b[2]), m(a[2], b[1])))),
                B.add(B.add(m(a[0], b[1]), m(a[1], b[0])), m(nr, m(a[2], b[2]))),
                B.add(B.add(m(a[0], b[2]), m(a[1], b[1])), m(a[2], b[0])))

    def inv(self, a):
        B, nr = self.B, self.nr
        m = B.mul
        t0 = B.sub(m(a[0], a[0]), m(nr, m(a[1], a[2])))
        t1 = B.sub(m(nr, m(a[2], a[2])), m(a[0], a[1]))
        t2 = B.sub(m(a[1], a[1]), m(a[0], a[2]))
        n = B.inv(B.add(m(a[0], t0), m(nr, B.add(m(a[2], t1), m(a[1], t2)))))
        return (m(t0, n), m(t1, n), m(t2, n))

    def key(self, a): return self.B.key(a[2]) + self.B.key(a[1]) + self.B.key(a[0])   # Ord: last coordinate first

    def co(self, a): return self.B.co(a[0]) + self.B.co(a[1]) + self.B.co(a[2])

    def el(self, c):
        d = self.B.deg
        return (self.B.el(c[:d]), self.B.el(c[d:2 * d]), self.B.el(c[2 * d:]))

    def rand(self, rng): return (self.B.rand(rng), self.B.rand(rng), self.B.rand(rng))
    def is0(self, a): return all(self.B.is0(x) for x in a)


def fpow(F, a, e):
    r = F.one()
    for bit in bin(e)[2:]:
        r = F.mul(r, r)
        if bit == '1':
            r = F.mul(r, a)
    return r


def target_field(p, tower, nr2, nr6, nr3=None):
    if tower == 32:                                   # Fp6 = Fp3[v]/(v^2 - u), Fp3 = Fp[u]/(u^3 - nr3)
        return Quad(Cubic(Fp(p), nr3 % p), (0, 1, 0))
    F2 = Quad(Fp(p), nr2 % p)
    if tower == 4:
        return Quad(F2, (0, 1))
    F6 = Cubic(F2, (nr6[0] % p, nr6[1] % p))
    return Quad(F6, ((0, 0), (1, 0), (0, 0)))


def sqrt_p(a, p):
    a %= p
    if a == 0:
        return 0
    if pow(a, (p - 1) // 2, p) != 1:
        return None
    if p % 4 == 3:
        return pow(a, (p + 1) // 4, p)
    q, s = p - 1, 0
    while q % 2 == 0:
        q //= 2; s += 1
    z = 2
    while pow(z, (p - 1) // 2, p) != p - 1:
        z += 1
    m, c, t, r = s, pow(z, q, p), pow(a, q, p), pow(a, (q + 1) // 2, p)
    while t != 1:
        i, t2 = 0, t
        while t2 != 1:
            t2 = t2 * t2 % p; i += 1
        b = pow(c, 1 << (m - i - 1), p)
        m, c = i, b * b % p
        t, r = t * c % p, r * b % p
    return r


def fsqrt(F, a):
    """a square root in Fp or Fp2 = Fp[u]/(u^2 - nr), or None"""
    p = F.p
    if F.deg == 1:
        return sqrt_p(a, p)
    if F.deg != 2:
        return sqrt_generic(F, a)
    a0, a1 = a
    nr = F.nr
    if a1 == 0:
        s = sqrt_p(a0, p)
        if s is not None:
            return (s, 0)
        s = sqrt_p(a0 * pow(nr, p - 2, p), p)
        return None if s is None else (0, s)
    n = sqrt_p((a0 * a0 - nr * a1 * a1) % p, p)
    if n is None:
        return None
    inv2 = pow(2, p - 2, p)
    for s in (n, (-n) % p):
        x0 = sqrt_p((a0 + s) * inv2, p)
        if x0 is not None and x0 != 0:
            x1 = a1 * pow(2 * x0, p - 2, p) % p
            if F.mul((x0, x1), (x0, x1)) == (a0 % p, a1 % p):
                return (x0, x1)
    return None


_NONRES = {}


def sqrt_generic(F, a):
    """Tonelli-Shanks in any of the fields above (used for Fp3)"""
    if F.is0(a):
        return F.zero()
    q = F.p ** F.deg
    one = F.one()
    if fpow(F, a, (q - 1) // 2) != one:
        return None
    t, s = q - 1, 0
    while t % 2 == 0:
        t //= 2; s += 1
    kz = (F.p, F.deg, str(F.nr))
    if kz not in _NONRES:
        import random
        rr = random.Random(7)
        while True:
            z = F.rand(rr)
            if not F.is0(z) and fpow(F, z, (q - 1) // 2) != one:
                break
        _NONRES[kz] = fpow(F, z, t)
    m, c, tt, r = s, _NONRES[kz], fpow(F, a, t), fpow(F, a, (t + 1) // 2)
    while tt != one:
        i, t2 = 0, tt
        while t2 != one:
            t2 = F.mul(t2, t2); i += 1
        b = fpow(F, c, 1 << (m - i - 1))
        m, c = i, F.mul(b, b)
        tt, r = F.mul(tt, c), F.mul(r, b)
    return r
