"""Prints the Rust definitions of the derived adversarial-limb-pattern prime fields of harness/src/bin/c11.rs
(table DERIVED_FP of prop.py; generator = least quadratic non-residue).  Not used at check time."""
import os, sys
sys.path.insert(0, os.path.dirname(os.path.abspath(__file__)))
from prop import DERIVED_FP

RUST_NAME = {'p521': 'P521', 'ed448': 'Ed448', 'm127': 'M127', 'c25519': 'C25519', 'p192': 'P192', 'p384': 'P384',
             'p256': 'P256', 'goldilocks': 'Goldilocks', 'stark252': 'Stark252', 'ta66': 'Ta66', 'low1': 'Low1',
             'low2': 'Low2', 'low1top': 'Low1Top', 'low3': 'Low3'}
M = (1 << 64) - 1
arms = []
for cfg, (name, p) in DERIVED_FP.items():
    n = (p.bit_length() + 63) // 64
    g = 2
    while pow(g, (p - 1) // 2, p) != p - 1:
        g += 1
    r = RUST_NAME[name]
    print('// %d: limbs (low first) %s' % (cfg, ' '.join('%016x' % ((p >> (64 * k)) & M) for k in range(n))))
    print('#[derive(MontConfig)]\n#[modulus = "%d"]\n#[generator = "%d"]\npub struct D%sConfig;' % (p, g, r))
    print('pub type D%s = Fp<MontBackend<D%sConfig, %d>, %d>;\n' % (r, r, n, n))
    arms.append('        %d => prime!(D%s, op, a),' % (cfg, r))
print('\n'.join(arms))
