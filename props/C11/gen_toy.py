"""Prints the Rust definitions of the toy fields used by harness/src/bin/c11.rs
(constants computed here, pasted into the harness).  Not used at check time."""
import sys

def factor(n):
    f, d = set(), 2
    while d * d <= n:
        while n % d == 0:
            f.add(d); n //= d
        d += 1
    if n > 1: f.add(n)
    return f

def primroot(p):
    fs = factor(p - 1)
    g = 2
    while any(pow(g, (p - 1) // q, p) == 1 for q in fs):
        g += 1
    return g

def limbs(v):
    out = []
    while True:
        out.append(v & ((1 << 64) - 1)); v >>= 64
        if v == 0: break
    return out

PRIMES = [5, 7, 11, 13, 17, 19, 23, 31, 37, 41, 73, 97, 193, 257, 641, 769]
FP2 = [7, 13, 17, 23, 41, 97, 193]          # base primes of toy Fp2 (nonresidue = least QNR... see below)
FP3 = [7, 13, 19, 31, 37, 73, 97]           # p = 1 mod 3

def qnr(p):
    # prefer -1 when p = 3 mod 4 (like the shipped towers), else least non-residue
    if p % 4 == 3: return p - 1
    a = 2
    while pow(a, (p - 1) // 2, p) == 1: a += 1
    return a

def cnr(p):
    a = 2
    while pow(a, (p - 1) // 3, p) == 1: a += 1
    return a

out = []
for p in PRIMES:
    out.append('#[derive(MontConfig)]\n#[modulus = "%d"]\n#[generator = "%d"]\npub struct F%dConfig;\npub type F%d = Fp64<MontBackend<F%dConfig, 1>>;\n' % (p, primroot(p), p, p, p))
for p in FP2:
    nr = qnr(p)
    out.append('''pub struct F%dx2Config;
impl Fp2Config for F%dx2Config {
    type Fp = F%d;
    const NONRESIDUE: F%d = MontFp!("%d");
    const FROBENIUS_COEFF_FP2_C1: &'static [F%d] = &[MontFp!("1"), MontFp!("%d")];
}
pub type F%dx2 = Fp2<F%dx2Config>;
''' % (p, p, p, p, nr, p, pow(nr, (p - 1) // 2, p), p, p))
for p in FP3:
    nr = cnr(p)
    q = p ** 3
    s, t = 0, q - 1
    while t % 2 == 0: s += 1; t //= 2
    g = primroot(p)          # a QNR of Fp stays a QNR in the odd-degree extension
    zt = pow(g, t, p)
    c1 = [pow(nr, (p ** i - 1) // 3, p) for i in range(3)]
    c2 = [pow(nr, 2 * (p ** i - 1) // 3, p) for i in range(3)]
    out.append('''pub struct F%dx3Config;
impl Fp3Config for F%dx3Config {
    type Fp = F%d;
    const NONRESIDUE: F%d = MontFp!("%d");
    const TWO_ADICITY: u32 = %d;
    const TRACE_MINUS_ONE_DIV_TWO: &'static [u64] = &[%s];
    const QUADRATIC_NONRESIDUE_TO_T: Fp3<Self> = Fp3::new(MontFp!("%d"), MontFp!("0"), MontFp!("0"));
    const FROBENIUS_COEFF_FP3_C1: &'static [F%d] = &[%s];
    const FROBENIUS_COEFF_FP3_C2: &'static [F%d] = &[%s];
}
pub type F%dx3 = Fp3<F%dx3Config>;
''' % (p, p, p, p, nr, s, ', '.join(str(x) for x in limbs((t - 1) // 2)), zt,
       p, ', '.join('MontFp!("%d")' % x for x in c1), p, ', '.join('MontFp!("%d")' % x for x in c2), p, p))
print('\n'.join(out))
