"""C11: square roots and quadratic-residue tests.  Case generator + property metadata.

Case layout (see coq/C11/Run.v): a0 = [cfg_id]; a1 = [deg, p(, nr)]; a2 = prime-field SQRT_PRECOMP;
a3 = Fp3 constants (prime fields: [GENERATOR]); a4.. operands.  a1..a3 come from props/C11/params.json, which `pre` regenerates
from the Rust configuration through the harness op `params` (so a changed constant in /repo is seen
by the model as what the code really uses; `precomp_ok` makes the model re-check every premise on them and, for
prime fields, recompute (p+1)/4, two-adicity, trace, root of unity from the modulus by the limb-level model
coq/C11/ConstModel.v and compare with the live constants the harness prints)."""
import sys, os, json
sys.path.insert(0, '/verif/lib')

OPS = {'sqrt': 1, 'legendre': 2, 'sqrt_with': 3, 'sw_ys': 4, 'te_xs': 5, 'params': 6, 'precomp_ok': 7}

HERE = os.path.dirname(os.path.abspath(__file__))
PARAMS = HERE + '/params.json'

TOY_PRIMES = [5, 7, 11, 13, 17, 19, 23, 31, 37, 41, 73, 97, 193, 257, 641, 769]
TOY_FP2 = [7, 13, 17, 23, 41, 97, 193]
TOY_FP3 = [7, 13, 19, 31, 37, 73, 97]
SHIPPED_FP = {10001: 'bls12_381.Fq', 10002: 'bls12_381.Fr', 10003: 'bn254.Fq', 10004: 'bn254.Fr',
              10005: 'secp256k1.Fq', 10006: 'ed25519.Fq', 10007: 'bls12_377.Fr', 10008: 'bls12_377.Fq',
              10009: 'pallas.Fq', 10010: 'mnt6_298.Fq', 10011: 'test.mnt6_753.Fq', 10012: 'test.bls12_381.Fq',
              10013: 'test.secp256k1.Fq', 10014: 'secp256k1.Fr', 10015: 'vesta.Fq', 10016: 'ed_on_bn254.Fq'}
# prime fields DERIVED in the harness (#[derive(MontConfig)]) with adversarial limb patterns: id -> (name, modulus).
# They exercise the compile-time constant computation (const_add_with_carry / divide_by_2_round_down / two_adic_*):
_M = (1 << 64) - 1
DERIVED_FP = {
    11001: ('p521', 2**521 - 1),                                  # N=9, 3 mod 4, every limb all ones
    11002: ('ed448', 2**448 - 2**224 - 1),                        # N=7, 3 mod 4, low 3 limbs all ones, no spare bit
    11003: ('m127', 2**127 - 1),                                  # N=2, low limb all ones
    11004: ('c25519', 2**255 - 19),                               # 5 mod 8: Tonelli-Shanks with two-adicity 2
    11005: ('p192', 2**192 - 2**64 - 1),                          # N=3, limbs ff..ff, ff..fe, ff..ff; no spare bit
    11006: ('p384', 2**384 - 2**128 - 2**96 + 2**32 - 1),         # N=6, no spare bit
    11007: ('p256', 2**256 - 2**224 + 2**192 + 2**96 - 1),        # N=4, low limb all ones, no spare bit
    11008: ('goldilocks', 2**64 - 2**32 + 1),                     # N=1, two-adicity 32, no spare bit
    11009: ('stark252', 2**251 + 17 * 2**192 + 1),                # two-adicity 192 (> 64: spans three limbs)
    11010: ('ta66', (2**64 - 28) * 2**64 + 1),                    # N=2, two-adicity 66, no spare bit
    11011: ('low1', (0x39fbbc55f6fa5db8 << 64) | _M),             # 3 mod 4, low limb all ones, non-trivial next limb
    11012: ('low2', (0x39526095d64be5f0 << 128) | (_M << 64) | _M),   # 3 mod 4, two low limbs all ones
    11013: ('low1top', (_M << 128) | (0xe7b4b57e83cb86df << 64) | _M),  # all ones / random / all ones, no spare bit
    11014: ('low3', (0xc63009a840cab34 << 192) | (_M << 128) | (_M << 64) | _M),  # three low limbs all ones
}
SHIPPED_FP2 = {12001: 'bls12_381.Fq2', 12002: 'bn254.Fq2', 12003: 'bls12_377.Fq2', 12004: 'test.bls12_381.Fq2'}
SHIPPED_FP3 = {13001: 'mnt6_298.Fq3', 13002: 'test.mnt6_753.Fq3'}
SW_CURVES = {20001: 'bls12_381.g1', 20002: 'bls12_381.g2', 20003: 'secp256k1', 20004: 'mnt6_298.g1',
             20005: 'mnt6_298.g2', 20006: 'bn254.g1', 20007: 'bn254.g2', 20008: 'jubjub.sw',
             21013: 'toy', 21017: 'toy', 21097: 'toy', 21257: 'toy', 21023: 'toy',
             22007: 'toy', 22013: 'toy', 23007: 'toy', 23013: 'toy'}
TE_CURVES = {30001: 'ed25519', 30002: 'jubjub', 30003: 'bandersnatch', 30004: 'ed_on_bn254',
             31013: 'toy', 31017: 'toy', 31097: 'toy', 31257: 'toy', 31023: 'toy', 32013: 'toy', 33007: 'toy'}


def all_cfgs():
    ids = list(TOY_PRIMES) + [2000 + p for p in TOY_FP2] + [3000 + p for p in TOY_FP3]
    ids += list(SHIPPED_FP) + list(DERIVED_FP) + list(SHIPPED_FP2) + list(SHIPPED_FP3) + list(SW_CURVES) + list(TE_CURVES)
    return ids


def is_toy(cfg):
    return cfg < 10000 or (cfg % 10000) >= 1000 and cfg >= 20000


def pre(ctx):
    """dump the sqrt-related constants of every configuration from the Rust code"""
    import vcheck
    rc, out = ctx['sh']('cargo build --offline --bin c11', cwd=ctx['ROOT'] + '/harness', timeout=3000,
                        env={'RUSTFLAGS': '--cfg ' + vcheck.GUARD})
    if rc != 0:
        ctx['notes'].append('params: harness does not build; kept previous params.json')
        return
    ids = all_cfgs()
    lines = ['%d:params %x' % (OPS['params'], i) for i in ids]
    import subprocess
    p = subprocess.run([ctx['BUILD'] + '/target/debug/c11'], input='\n'.join(lines) + '\n', stdout=subprocess.PIPE,
                       text=True, timeout=600)
    outl = p.stdout.splitlines()
    if p.returncode != 0 or len(outl) != len(ids):
        ctx['notes'].append('params: harness params dump failed; kept previous params.json')
        return
    d = {}
    for i, l in zip(ids, outl):
        parts = l.split(' ')
        if parts[0] != '0':
            ctx['notes'].append('params: cfg %d -> %s; kept previous entry' % (i, l[:40]))
            continue
        d[str(i)] = [vcheck.parse_arg(t) for t in parts[1:]]
    old = json.load(open(PARAMS)) if os.path.exists(PARAMS) else None
    if old is not None:
        for k in old:
            d.setdefault(k, old[k])
    if d != old:
        with open(PARAMS, 'w') as f:
            json.dump(d, f, sort_keys=True)
            f.write('\n')
        ctx['notes'].append('params.json regenerated from the Rust configuration')


# ------------------------------------------------------------------ tiny field arithmetic for the generator
class Fld:
    def __init__(self, desc):
        self.deg, self.p = desc[0], desc[1]
        self.nr = desc[2] if len(desc) > 2 else 0
        self.q = self.p ** self.deg

    def one(self):
        return [1] + [0] * (self.deg - 1)

    def zero(self):
        return [0] * self.deg

    def emb(self, v):
        return [v % self.p] + [0] * (self.deg - 1)

    def mul(self, a, b):
        p, nr = self.p, self.nr
        if self.deg == 1:
            return [a[0] * b[0] % p]
        if self.deg == 2:
            return [(a[0] * b[0] + nr * a[1] * b[1]) % p, (a[0] * b[1] + a[1] * b[0]) % p]
        return [(a[0] * b[0] + nr * (a[1] * b[2] + a[2] * b[1])) % p,
                (a[0] * b[1] + a[1] * b[0] + nr * a[2] * b[2]) % p,
                (a[0] * b[2] + a[1] * b[1] + a[2] * b[0]) % p]

    def neg(self, a):
        return [(-x) % self.p for x in a]

    def pow(self, a, e):
        r = self.one()
        for bit in bin(e)[2:]:
            r = self.mul(r, r)
            if bit == '1':
                r = self.mul(r, a)
        return r

    def rand(self, rng):
        return [rng.randrange(self.p) for _ in range(self.deg)]

    def two_adic(self):
        s, t = 0, self.q - 1
        while t % 2 == 0:
            s += 1
            t //= 2
        return s, t

    def is_square(self, a):
        return a == self.zero() or self.pow(a, (self.q - 1) // 2) == self.one()

    def nonsquare(self, rng):
        while True:
            a = self.rand(rng)
            if not self.is_square(a):
                return a

    def from_index(self, i):
        out = []
        for _ in range(self.deg):
            out.append(i % self.p)
            i //= self.p
        return out


def factor(n):
    f, d = set(), 2
    while d * d <= n:
        while n % d == 0:
            f.add(d)
            n //= d
        d += 1
    if n > 1:
        f.add(n)
    return f


def primroots(p, count):
    fs = factor(p - 1)
    out, g = [], 2
    while len(out) < count and g < p:
        if all(pow(g, (p - 1) // q, p) != 1 for q in fs):
            out.append(g)
        g += 1
    return out


def structured(F, rng, n_random):
    """structured operand stream for a field: (coords, class)"""
    p = F.p
    s, t = F.two_adic()
    yield F.zero(), 'zero'
    yield F.one(), 'one'
    yield F.neg(F.one()), 'minus_one'
    for v in (2, 3, 4, 9, p - 2, p - 4, (p + 1) // 2, (p - 1) // 2):
        yield F.emb(v), 'small_or_boundary_base'
    if F.deg > 1:
        yield F.emb(F.nr), 'nonresidue_of_tower'
        # base-prime-field elements inside the extension: separate branch of QuadExtField::sqrt
        for _ in range(max(4, n_random // 4)):
            yield F.emb(rng.randrange(p)), 'base_field_embedded'
        for i in range(1, F.deg):
            e = F.zero()
            e[i] = 1
            yield e, 'pure_generator_power'
            e = F.zero()
            e[i] = rng.randrange(1, p)
            yield e, 'single_high_coordinate'
    # elements of exact 2-power order: z^(2^j), z = (non-residue)^t -- worst-case Tonelli-Shanks loops
    z = F.pow(F.nonsquare(rng), t)
    zz = z
    for j in range(s + 1):
        yield zz, 'order_2^%d' % (s - j) if s <= 8 else 'exact_2power_order'
        zz = F.mul(zz, zz)
    # elements whose 2-part has maximal order among squares (longest successful run), and among non-squares
    for _ in range(max(2, n_random // 8)):
        r = F.pow(F.rand(rng), 1 << s)           # odd-order part
        if r == F.zero():
            continue
        j = rng.randrange(s + 1)
        yield F.mul(r, F.pow(z, 1 << j)), 'two_part_order_2^(s-%d)' % j if s <= 8 else 'two_part_structured'
    for _ in range(n_random):
        r = F.rand(rng)
        yield F.mul(r, r), 'square_of_random'
    for _ in range(n_random):
        yield F.nonsquare(rng), 'non_residue'
    for _ in range(n_random):
        yield F.rand(rng), 'random'


def load_params():
    return {int(k): v for k, v in json.load(open(PARAMS)).items()}


def gen(rng, tier):
    P = load_params()
    thorough = tier != 'quick'

    def fargs(cfg):
        a1, a2, a3 = P[cfg]
        return [[cfg], a1, a2, a3]

    # ---------------- constants of every compiled field configuration satisfy the theorems' premises
    for cfg in TOY_PRIMES + [2000 + p for p in TOY_FP2] + [3000 + p for p in TOY_FP3] + \
            list(SHIPPED_FP) + list(DERIVED_FP) + list(SHIPPED_FP2) + list(SHIPPED_FP3):
        yield 'precomp_ok', fargs(cfg), 'constants/%s' % ('toy' if cfg < 10000 else 'derived' if cfg in DERIVED_FP else 'shipped')

    # ---------------- toy prime fields: EXHAUSTIVE, two-adicity 1..8
    # branches: Case3Mod4 (p = 3 mod 4), TonelliShanks (zero shortcut; b == 1 at entry; inner search;
    # k == two_adicity early None; j = v - k with j = 1 and j > 1; final check), Fp::legendre three outcomes
    for p in TOY_PRIMES:
        F = Fld(P[p][0])
        s, t = F.two_adic()
        roots = primroots(p, 3)
        for x in range(p):
            yield 'sqrt', fargs(p) + [[x]], 'toy_fp/s=%d/exhaustive' % s
            yield 'legendre', fargs(p) + [[x]], 'toy_fp/s=%d/exhaustive' % s
            # explicit TonelliShanks precomputation (also on p = 3 mod 4, where the config uses Case3Mod4),
            # with several valid choices of the 2^s-th root z = g^t
            for g in roots:
                pc = [2, s, pow(g, t, p), (t - 1) // 2]
                yield 'sqrt_with', [[p], P[p][0], pc, []] + [[x]], 'toy_fp/s=%d/explicit_ts' % s
            if p % 4 == 3:
                yield 'sqrt_with', [[p], P[p][0], [1, (p + 1) // 4], []] + [[x]], 'toy_fp/explicit_3mod4'

    # ---------------- toy quadratic extensions: all p^2 elements
    # branches of QuadExtField::sqrt: c1 == 0 with c0 a residue / c0 not a residue (incl. c0 = 0);
    # norm not a square -> None; delta a residue / delta a non-residue (delta -= alpha); final check
    for p in TOY_FP2:
        cfg = 2000 + p
        F = Fld(P[cfg][0])
        if p <= 97 or thorough:
            for i in range(F.q):
                x = F.from_index(i)
                yield 'sqrt', fargs(cfg) + [x], 'toy_fp2/p=%d/exhaustive' % p
                if p <= 41 or thorough:
                    yield 'legendre', fargs(cfg) + [x], 'toy_fp2/p=%d/exhaustive' % p
        else:
            for x, c in structured(F, rng, 300):
                yield 'sqrt', fargs(cfg) + [x], 'toy_fp2/p=%d/%s' % (p, c)
                yield 'legendre', fargs(cfg) + [x], 'toy_fp2/p=%d/%s' % (p, c)

    # ---------------- toy cubic extensions: all p^3 elements (Tonelli-Shanks with Fp3Config constants,
    # CubicExtField::legendre through the Frobenius norm)
    for p in TOY_FP3:
        cfg = 3000 + p
        F = Fld(P[cfg][0])
        if p <= 19 or (thorough and p <= 73):
            for i in range(F.q):
                x = F.from_index(i)
                yield 'sqrt', fargs(cfg) + [x], 'toy_fp3/p=%d/exhaustive' % p
                if p <= 13 or thorough:
                    yield 'legendre', fargs(cfg) + [x], 'toy_fp3/p=%d/exhaustive' % p
        else:
            for x, c in structured(F, rng, 4000 if thorough else 150):
                yield 'sqrt', fargs(cfg) + [x], 'toy_fp3/p=%d/%s' % (p, c)
                yield 'legendre', fargs(cfg) + [x], 'toy_fp3/p=%d/%s' % (p, c)

    # ---------------- shipped fields (two-adicity 1..47), structured + random
    nrand = 400 if thorough else 10
    for cfg in list(SHIPPED_FP) + list(SHIPPED_FP2) + list(SHIPPED_FP3):
        F = Fld(P[cfg][0])
        big = F.p.bit_length() > 400
        for x, c in structured(F, rng, max(2, nrand // 3) if big else nrand):
            name = (SHIPPED_FP.get(cfg) or SHIPPED_FP2.get(cfg) or SHIPPED_FP3.get(cfg))
            yield 'sqrt', fargs(cfg) + [x], 'shipped/%s/%s' % (name, c)
            yield 'legendre', fargs(cfg) + [x], 'shipped/%s/%s' % (name, c)

    # ---------------- derived prime fields with adversarial limb patterns (all-ones limbs, no spare bit,
    # two-adicity 2 / 32 / 66 / 192): the configured SQRT_PRECOMP, plus explicit precomputations built from the modulus
    # here (Case3Mod4 with (p+1)/4, Tonelli-Shanks with two-adicity 1 on p = 3 mod 4)
    nder = 300 if thorough else 12
    for cfg, (name, p) in DERIVED_FP.items():
        assert P[cfg][0] == [1, p], 'params.json does not match DERIVED_FP[%d]' % cfg
        F = Fld(P[cfg][0])
        s, t = F.two_adic()
        g = P[cfg][2][0]
        for x, c in structured(F, rng, nder):
            yield 'sqrt', fargs(cfg) + [x], 'derived/%s/%s' % (name, c)
            yield 'legendre', fargs(cfg) + [x], 'derived/%s/%s' % (name, c)
        for x, c in structured(F, rng, max(2, nder // 4)):
            yield 'sqrt_with', [[cfg], P[cfg][0], [2, s, pow(g, t, p), (t - 1) // 2], []] + [x], 'derived/%s/explicit_ts/%s' % (name, c)
            if p % 4 == 3:
                yield 'sqrt_with', [[cfg], P[cfg][0], [1, (p + 1) // 4], []] + [x], 'derived/%s/explicit_3mod4/%s' % (name, c)

    # ---------------- curve coordinate recovery
    # get_ys_from_x_unchecked: COEFF_A == 0 shortcut / a != 0; sqrt None; y < -y true/false; y = 0
    # get_xs_from_y_unchecked: denominator == 0 -> None; sqrt None; x <= -x true/false; x = 0 (y = +-1)
    for table, op in ((SW_CURVES, 'sw_ys'), (TE_CURVES, 'te_xs')):
        for cfg, name in table.items():
            fid, ca, cb = P[cfg]
            fid = fid[0]
            F = Fld(P[fid][0])
            pre_args = [[cfg]] + list(P[fid]) + [ca, cb]
            if name == 'toy':
                if F.q <= 400 or thorough:
                    for i in range(F.q):
                        yield op, pre_args + [F.from_index(i)], 'toy_curve/%d/exhaustive' % cfg
                else:
                    for x, c in structured(F, rng, 200):
                        yield op, pre_args + [x], 'toy_curve/%d/%s' % (cfg, c)
            else:
                for x, c in structured(F, rng, nrand):
                    yield op, pre_args + [x], 'shipped_curve/%s/%s' % (name, c)


def xcheck_ok(case):
    # the kernel (vm_compute on stdlib Z) re-evaluates toy-field cases only
    return is_toy(case['args'][0][0])


def nontrivial(case, out):
    return case['op'] == 'precomp_ok' or any(x != 0 for x in case['args'][-1])


RULE = ('exhaustive enumeration of every element of toy prime fields (p = 5..769, two-adicity 1..8), toy Fp2 (p^2 elements) '
        'and toy Fp3 (p^3 elements), toy curves over them; 14 derived prime fields with adversarial limb patterns (2^521-1, '
        '2^448-2^224-1, 2^127-1, 2^255-19, P-192/256/384, Goldilocks, two-adicity 66 and 192, all-ones low limbs) and '
        'shipped fields/curves: 0, 1, -1, small/boundary base elements, '
        'tower non-residue, base-field elements embedded in extensions, elements of exact 2-power order z^(2^j), elements with '
        'prescribed 2-part, squares of random elements, random non-residues, random; non-trivial = last operand non-zero; '
        'distinct = distinct case lines')
XCHECK = {'quick': 400, 'thorough': 2000}
HYPOTHESES = ['field_theory + Leibniz eqb for the carrier (proved for GF(13), GF(7) in C11/SmallFields.v)', 'fermat: x <> 0 -> x^(2^s (2 tm+1)) = 1 (resp. x^(4m-2) = 1): Fermat little theorem for the field', 'z_order: z^(2^(s-1)) = -1', 'nr_nonsquare: the tower non-residue is not a square of the base field', 'two_inv_spec: 2 * two_inv = 1', 'ltb_asym: the order used by Ord is asymmetric']
TRUSTED = ['constants of each configuration are read from the Rust code by the harness op `params` (props/C11/params.json) '
           'and handed to the model as case arguments: the model is parametric in them; for prime fields `precomp_ok` '
           'additionally compares the live constants with what the limb-level model computes from the modulus and GENERATOR',
           'Field::pow, field multiplication/inversion and Ord are modelled at value level (Base.Field dictionaries); '
           'their limb-level correctness belongs to C01/C02']
ASSUMPTIONS = ['harness built with debug assertions and overflow checks (profile dev): debug_assert!/usize underflow are panics',
               'SQRT_PRECOMP is always Some for the compiled configurations']


# pinned theorems that instantiate this package's abstract-field theorems at the executed ZpOps dictionary
EXTRA_PROP_FILES = ['Bridge', 'Bridge2', 'NumTh', 'C11Cubic']
