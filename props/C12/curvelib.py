"""Field / curve helpers and the toy-curve tables of C12 (pure python; used only to *build
inputs*: points from x / y coordinates, small-order points, subgroup points.  Expected
outputs always come from the Coq model).  Fld / SW / TE are copied from props/C03/toycurves.py."""
import itertools


class Fld:
    def __init__(self, p, deg=1, nr=0):
        self.p, self.deg, self.nr = p, deg, nr % p
        self.zero = (0,) * deg
        self.one = (1,) + (0,) * (deg - 1)
        self.q = p ** deg
        self._z = None

    def el(self, *c):
        c = list(c) + [0] * (self.deg - len(c))
        return tuple(x % self.p for x in c)

    def add(self, a, b):
        return tuple((x + y) % self.p for x, y in zip(a, b))

    def sub(self, a, b):
        return tuple((x - y) % self.p for x, y in zip(a, b))

    def neg(self, a):
        return tuple((-x) % self.p for x in a)

    def mul(self, a, b):
        p, nr = self.p, self.nr
        if self.deg == 1:
            return ((a[0] * b[0]) % p,)
        if self.deg == 2:
            return ((a[0] * b[0] + nr * a[1] * b[1]) % p, (a[0] * b[1] + a[1] * b[0]) % p)
        return ((a[0] * b[0] + nr * (a[1] * b[2] + a[2] * b[1])) % p,
                (a[0] * b[1] + a[1] * b[0] + nr * a[2] * b[2]) % p,
                (a[0] * b[2] + a[1] * b[1] + a[2] * b[0]) % p)

    def sq(self, a):
        return self.mul(a, a)

    def pow(self, a, e):
        r = self.one
        while e:
            if e & 1:
                r = self.mul(r, a)
            a = self.mul(a, a)
            e >>= 1
        return r

    def inv(self, a):
        if self.deg == 1:
            return (pow(a[0], -1, self.p),)
        if self.deg == 2:
            n = pow((a[0] * a[0] - self.nr * a[1] * a[1]) % self.p, -1, self.p)
            return ((a[0] * n) % self.p, (-a[1] * n) % self.p)
        # cubic extension: adjugate / norm (same formula as Base/Field.v cinv)
        p, nr = self.p, self.nr
        t0 = (a[0] * a[0] - nr * a[1] * a[2]) % p
        t1 = (nr * a[2] * a[2] - a[0] * a[1]) % p
        t2 = (a[1] * a[1] - a[0] * a[2]) % p
        n = pow((a[0] * t0 + nr * (a[2] * t1 + a[1] * t2)) % p, -1, p)
        return ((t0 * n) % p, (t1 * n) % p, (t2 * n) % p)

    def smul(self, k, a):
        return tuple((k * x) % self.p for x in a)

    def all(self):
        return [tuple(reversed(t)) for t in itertools.product(range(self.p), repeat=self.deg)]

    def rand(self, rng):
        return tuple(rng.randrange(self.p) for _ in range(self.deg))

    def rand_nz(self, rng):
        while True:
            r = self.rand(rng)
            if r != self.zero:
                return r

    def is_square(self, a):
        return a == self.zero or self.pow(a, (self.q - 1) // 2) == self.one

    def nonresidue(self):
        if self._z is None:
            k = 2
            while True:
                cand = tuple(((k >> (4 * i)) & 0xf) % self.p for i in range(self.deg)) if self.deg > 1 else (k % self.p,)
                if cand != self.zero and not self.is_square(cand):
                    self._z = cand
                    break
                k += 1
        return self._z

    def sqrt(self, a):
        """Tonelli-Shanks in F_q; None when a is not a square"""
        if a == self.zero:
            return a
        if not self.is_square(a):
            return None
        s, t = 0, self.q - 1
        while t % 2 == 0:
            s += 1; t //= 2
        c = self.pow(self.nonresidue(), t)
        x = self.pow(a, (t + 1) // 2)
        b = self.pow(a, t)
        m = s
        while b != self.one:
            i, b2 = 0, b
            while b2 != self.one:
                b2 = self.sq(b2); i += 1
            e = self.pow(c, 1 << (m - i - 1))
            x = self.mul(x, e)
            c = self.sq(e)
            b = self.mul(b, c)
            m = i
        return x


class SW:
    kind = 'sw'

    def __init__(self, cid, name, fld, a, b, gen=None, r=None, h=None):
        self.cid, self.name, self.F, self.a, self.b, self.gen, self.r, self.h = cid, name, fld, fld.el(*a), fld.el(*b), gen, r, h
        self.ident = None

    def rhs(self, x):
        F = self.F
        return F.add(F.add(F.mul(F.sq(x), x), F.mul(self.a, x)), self.b)

    def on_curve(self, P):
        return P is None or self.F.sq(P[1]) == self.rhs(P[0])

    def points(self):
        """all affine points (None = infinity first)"""
        F = self.F
        roots = {}
        for y in F.all():
            roots.setdefault(F.sq(y), []).append(y)
        pts = [None]
        for x in F.all():
            for y in roots.get(self.rhs(x), []):
                pts.append((x, y))
        return pts

    def neg(self, P):
        return None if P is None else (P[0], self.F.neg(P[1]))

    def add(self, P, Q):
        F = self.F
        if P is None:
            return Q
        if Q is None:
            return P
        if P[0] == Q[0]:
            if F.add(P[1], Q[1]) == F.zero:
                return None
            l = F.mul(F.add(F.smul(3, F.sq(P[0])), self.a), F.inv(F.smul(2, P[1])))
        else:
            l = F.mul(F.sub(Q[1], P[1]), F.inv(F.sub(Q[0], P[0])))
        x3 = F.sub(F.sub(F.sq(l), P[0]), Q[0])
        return (x3, F.sub(F.mul(l, F.sub(P[0], x3)), P[1]))

    def mul(self, k, P):
        R = None
        if k < 0:
            k, P = -k, self.neg(P)
        while k:
            if k & 1:
                R = self.add(R, P)
            P = self.add(P, P)
            k >>= 1
        return R

    def lift_x(self, x):
        y = self.F.sqrt(self.rhs(x))
        return None if y is None else (x, y)


class TE:
    kind = 'te'

    def __init__(self, cid, name, fld, a, d, gen=None, r=None, h=None, complete=None):
        self.cid, self.name, self.F, self.a, self.d, self.gen, self.r, self.h = cid, name, fld, fld.el(*a), fld.el(*d), gen, r, h
        self.complete = complete
        self.ident = (fld.zero, fld.one)

    def on_curve(self, P):
        F = self.F
        x2, y2 = F.sq(P[0]), F.sq(P[1])
        return F.add(F.mul(self.a, x2), y2) == F.add(F.one, F.mul(self.d, F.mul(x2, y2)))

    def points(self):
        F = self.F
        els = F.all()
        return [(x, y) for x in els for y in els if self.on_curve((x, y))]

    def neg(self, P):
        return (self.F.neg(P[0]), P[1])

    def dens(self, P, Q):
        F = self.F
        k = F.mul(self.d, F.mul(F.mul(P[0], Q[0]), F.mul(P[1], Q[1])))
        return F.add(F.one, k), F.sub(F.one, k)

    def add(self, P, Q):
        """Edwards law; None when a denominator vanishes (or an operand is already None)"""
        F = self.F
        if P is None or Q is None:
            return None
        d1, d2 = self.dens(P, Q)
        if d1 == F.zero or d2 == F.zero:
            return None
        x3 = F.mul(F.add(F.mul(P[0], Q[1]), F.mul(P[1], Q[0])), F.inv(d1))
        y3 = F.mul(F.sub(F.mul(P[1], Q[1]), F.mul(self.a, F.mul(P[0], Q[0]))), F.inv(d2))
        return (x3, y3)

    def mul(self, k, P):
        R = self.ident
        if k < 0:
            k, P = -k, self.neg(P)
        while k:
            if k & 1:
                R = self.add(R, P)
            k >>= 1
            if k:
                P = self.add(P, P)
        return R

    def lift_y(self, y):
        F = self.F
        y2 = F.sq(y)
        den = F.sub(self.a, F.mul(self.d, y2))
        if den == F.zero:
            return None
        x = F.sqrt(F.mul(F.sub(F.one, y2), F.inv(den)))
        return None if x is None else (x, y)



def isprime(n):
    return n > 1 and all(n % d for d in range(2, int(n ** .5) + 1))


def factor(n):
    f, d = [], 2
    while d * d <= n:
        while n % d == 0:
            f.append(d); n //= d
        d += 1
    if n > 1:
        f.append(n)
    return f


F13, F17, F19, F23, F29, F37, F47 = (Fld(p) for p in (13, 17, 19, 23, 29, 37, 47))
F11_2 = Fld(11, 2, 10)      # F_121 = F_11[u]/(u^2+1)

# cid, name, field, a, b, r, h      (#E = h * r, r prime, checked by setup())
TOY_SW = [
    SW(1, 'sw13_a0_h1', F13, (0,), (2,), r=19, h=1),        # cofactor-one shortcut, a = 0
    SW(2, 'sw13_a10_h1', F13, (10,), (1,), r=19, h=1),      # cofactor-one shortcut, a != 0
    SW(3, 'sw13_a1_h2', F13, (1,), (4,), r=7, h=2),
    SW(4, 'sw13_a0_h3', F13, (0,), (4,), r=7, h=3),
    SW(5, 'sw17_a1_h4_cyclic', F17, (1,), (6,), r=5, h=4),  # 4-part Z/4
    SW(6, 'sw17_a14_h4_full', F17, (14,), (1,), r=5, h=4),  # 4-part Z/2 x Z/2
    SW(7, 'sw19_a0_h4', F19, (0,), (8,), r=7, h=4),
    SW(8, 'sw29_h8', F29, (26,), (11,), r=5, h=8),
    SW(9, 'sw37_h8_full', F37, (1,), (2,), r=5, h=8),       # full 2-torsion
    SW(10, 'sw37_h9', F37, (2,), (14,), r=5, h=9),
    SW(11, 'sw23_h6', F23, (1,), (16,), r=5, h=6),
    SW(12, 'sw121_a0_h3', F11_2, (0,), (1, 2), r=37, h=3),  # over F_121
]
TOY_TE = [
    TE(1, 'te13_m1_h4', F13, (12,), (6,), r=5, h=4, complete=True),
    TE(2, 'te13_1_h4', F13, (1,), (7,), r=5, h=4, complete=True),
    TE(3, 'te19_a5_h4', F19, (5,), (2,), r=7, h=4, complete=True),
    TE(4, 'te29_m1_h8', F29, (28,), (27,), r=5, h=8, complete=True),
    TE(5, 'te29_1_h8', F29, (1,), (2,), r=5, h=8, complete=True),
    TE(6, 'te47_1_h12', F47, (1,), (22,), r=5, h=12, complete=True),
    # a, d both non-squares: 18 affine points, group order 20 (two points at infinity of the
    # completed curve); a - d y^2 vanishes at y = +-2.  Used for the sampling op only.
    TE(7, 'te17_a3_incomplete', F17, (3,), (5,), r=5, h=4, complete=False),
]


def setup(c):
    """all points of a toy curve; checks #E = h r and picks a generator of the order-r subgroup"""
    pts = c.points()
    incomplete = getattr(c, 'complete', True) is False
    assert incomplete or (len(pts) == c.h * c.r and isprime(c.r)), (c.name, len(pts))
    c.n = c.h * c.r
    c.gen = None
    for P in pts:
        Q = c.mul(c.h, P)
        if Q is not None and Q != c.ident and c.mul(c.r, Q) == c.ident:
            c.gen = Q
            break
    assert c.gen is not None and c.mul(c.r, c.gen) == c.ident
    c.cinv = pow(c.h, -1, c.r)
    return pts
