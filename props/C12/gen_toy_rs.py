"""One-off generator of the toy field / curve configurations inside harness/src/bin/c12.rs
(between the BEGIN/END GENERATED markers).  Run by hand when curvelib.py changes:
    python3 props/C12/gen_toy_rs.py"""
import re, sys
sys.path.insert(0, '/verif/props/C12')
from curvelib import *


def prim_root(p):
    fs = set(factor(p - 1))
    for g in range(2, p):
        if all(pow(g, (p - 1) // f, p) != 1 for f in fs):
            return g


out, fields = [], {}


def prime_field(m):
    if m not in fields:
        fields[m] = 'F%d' % m
        out.append('#[derive(MontConfig)]\n#[modulus = "%d"]\n#[generator = "%d"]\npub struct F%dConfig;\n'
                   'pub type F%d = Fp64<MontBackend<F%dConfig, 1>>;\n' % (m, prim_root(m), m, m, m))
    return fields[m]


def base_type(F):
    b = prime_field(F.p)
    return b if F.deg == 1 else '%s_%d' % (b, F.deg)


def lit(F, e):
    prime_field(F.p)
    if F.deg == 1:
        return 'MontFp!("%d")' % e[0]
    return '%s::new(%s)' % (base_type(F), ', '.join('MontFp!("%d")' % c for c in e))


prime_field(11)
out.append('''pub struct F11_2Config;
impl Fp2Config for F11_2Config {
    type Fp = F11;
    const NONRESIDUE: F11 = MontFp!("10");
    const FROBENIUS_COEFF_FP2_C1: &'static [F11] = &[MontFp!("1"), MontFp!("10")];
}
pub type F11_2 = Fp2<F11_2Config>;
''')
sw_disp, te_disp = [], []
for c in TOY_SW:
    setup(c)
    B, S = base_type(c.F), prime_field(c.r)
    out.append('''// %s: %d points, r = %d, cofactor %d
#[derive(Clone, Default, PartialEq, Eq)]
pub struct Sw%d;
impl CurveConfig for Sw%d {
    type BaseField = %s;
    type ScalarField = %s;
    const COFACTOR: &'static [u64] = &[%d];
    const COFACTOR_INV: %s = MontFp!("%d");
}
impl SWCurveConfig for Sw%d {
    const COEFF_A: %s = %s;
    const COEFF_B: %s = %s;
    const GENERATOR: sw::Affine<Self> = sw::Affine::new_unchecked(%s, %s);
}
''' % (c.name, c.n, c.r, c.h, c.cid, c.cid, B, S, c.h, S, c.cinv, c.cid, B, lit(c.F, c.a), B, lit(c.F, c.b),
       lit(c.F, c.gen[0]), lit(c.F, c.gen[1])))
    sw_disp.append('        %d => run_sw::<toy::Sw%d>(op, a),' % (c.cid, c.cid))
for c in TOY_TE:
    setup(c)
    B, S = base_type(c.F), prime_field(c.r)
    out.append('''// %s: %d points, r = %d, cofactor %d
#[derive(Clone, Default, PartialEq, Eq)]
pub struct Te%d;
impl CurveConfig for Te%d {
    type BaseField = %s;
    type ScalarField = %s;
    const COFACTOR: &'static [u64] = &[%d];
    const COFACTOR_INV: %s = MontFp!("%d");
}
impl TECurveConfig for Te%d {
    const COEFF_A: %s = %s;
    const COEFF_D: %s = %s;
    const GENERATOR: te::Affine<Self> = te::Affine::new_unchecked(%s, %s);
    type MontCurveConfig = Te%d;
}
impl MontCurveConfig for Te%d {
    const COEFF_A: %s = %s;
    const COEFF_B: %s = %s;
    type TECurveConfig = Te%d;
}
''' % (c.name, c.n, c.r, c.h, c.cid, c.cid, B, S, c.h, S, c.cinv, c.cid, B, lit(c.F, c.a), B, lit(c.F, c.d),
       lit(c.F, c.gen[0]), lit(c.F, c.gen[1]), c.cid, c.cid, B, lit(c.F, c.F.zero), B, lit(c.F, c.F.one), c.cid))
    te_disp.append('        %d => run_te::<toy::Te%d>(op, a),' % (c.cid, c.cid))

p = '/verif/harness/src/bin/c12.rs'
s = open(p).read()


def put(s, tag, body):
    return re.sub(r'(// BEGIN GENERATED %s\n).*?(// END GENERATED %s)' % (tag, tag),
                  lambda m: m.group(1) + body + '\n' + m.group(2), s, flags=re.S)


s = put(s, 'TOY CONFIGS', '\n'.join(out))
s = put(s, 'TOY SW DISPATCH', '\n'.join(sw_disp))
s = put(s, 'TOY TE DISPATCH', '\n'.join(te_disp))
open(p, 'w').write(s)
print('ok')
