"""C12: subgroup membership tests and cofactor clearing agree with their definitions.
Case generator + property metadata.  Case layout (see coq/C12/Run.v):
  [cfg] [p,deg,nr] a b|d [r,cofactor_inv,h_eff] cofactor_limbs [kind,ints..] consts operands...
Points are affine raw coordinates (SW: x ++ y ++ [inf]; TE: x ++ y); field elements are
base-prime-field coordinate lists.  This file only BUILDS INPUTS (points of the curve from
arbitrary x / y, small-order points, subgroup points); every expected output comes from the Coq
model (coq/C12)."""
import sys, os, json, re
sys.path.insert(0, '/verif/lib')
HERE = os.path.dirname(os.path.abspath(__file__))
sys.path.insert(0, HERE)
import curvelib as cl

OPS = {'sw_sub': 1, 'sw_clear': 2, 'sw_cofinv': 3, 'sw_sample': 4, 'sw_params': 5, 'sw_check': 6, 'sw_rand': 7,
       'te_sub': 11, 'te_clear': 12, 'te_cofinv': 13, 'te_sample': 14, 'te_params': 15, 'te_check': 16, 'te_rand': 17}
# *_rand exists in the Rust harness only (Affine::rand / Projective::rand with a seeded StdRng); its
# outputs are fed to *_check (is_on_curve, r * P = O) by extra() below.
PARAMS = HERE + '/params.json'

# the fixed integers the optimised clearing maps must multiply by (the *specification*):
#   RFC 9380 section 8.8.1 (BLS12-381 G1): h_eff = 0xd201000000010001 (= 1 - x)
#   RFC 9380 section 8.8.2 (BLS12-381 G2): h_eff = h2 * (3 x^2 - 3)
#   bls12_377 G1: x - 1 (comment in curves/bls12_377/src/curves/g1.rs);  G2: h2 * (3 x^2 - 3)
#   (Budroni-Pintore, eprint 2017/419 section 4.1: h(psi) acts as 3 (x^2 - 1) h2 on E'(F_q^2))
H_EFF_BLS381_G1 = 0xd201000000010001
H_EFF_BLS381_G2 = int('bc69f08f2ee75b3584c6a0ea91b352888e2a8e9145ad7689986ff031508ffe1329c2f178731db956d82bf015d1212b02'
                      'ec0ec69d7477c1ae954cbc06689f6a359894c0adebbf6b4e8020005aaa95551', 16)


# ------------------------------------------------------------------ constants from the Rust sources
def _const_ints(src, name):
    """the MontFp!/ZERO tokens of `const NAME ... = ... ;` in order"""
    m = re.search(r'const\s+%s\s*:[^=]*=(.*?);' % re.escape(name), src, re.S)
    if not m:
        raise RuntimeError('constant %s not found' % name)
    out = []
    for t in re.finditer(r'MontFp!\(\s*"(\d+)"\s*\)|(Fq::ZERO|FQ_ZERO)', m.group(1)):
        out.append(int(t.group(1)) if t.group(1) else 0)
    return out


def _limbs_val(l):
    return sum(int(x) << (64 * i) for i, x in enumerate(l))


def build_params(ctx, dump):
    """dump: list of JSON objects printed by `c12 params`; returns {id: entry}"""
    repo = ctx['REPO']
    by = {}
    for j in dump:
        by.setdefault(j['kind'], []).append(j)
    bls = {j['name']: j for j in by['bls']}
    glv = {j['name']: j for j in by['glv']}
    beta = {j['name']: j for j in by['beta']}
    rd = lambda p: open(repo + '/' + p).read()
    out = {}
    for j in by['sw'] + by['te']:
        e = {k: j[k] for k in ('kind', 'id', 'name')}
        e['field'] = [int(j['field'][0]), int(j['field'][1]), int(j['nr'][0])]
        e['a'] = [int(x) for x in j['a']]
        e['bd'] = [int(x) for x in (j['b'] if j['kind'] == 'sw' else j['d'])]
        e['g'] = [[int(x) for x in j['gx']], [int(x) for x in j['gy']]]
        e['r'], e['cinv'] = int(j['r']), int(j['cinv'])
        e['hl'] = [int(x) for x in j['h']]
        h = _limbs_val(e['hl'])
        frob = int(j['frob'][0])
        okind, consts, heff = [0], [], h
        n = j['name']
        if n == 'bls12_381_g1':
            b, g = bls['bls12_381'], glv[n]
            okind = [1, _limbs_val(b['x']), int(b['x_is_negative'])] + [int(c) for c in g['coeffs']] + [g['nbits']]
            consts = [int(x) for x in beta[n]['beta']] + [int(x) for x in g['endo']]
            heff = H_EFF_BLS381_G1
        elif n == 'tc_bls12_381_g1':
            src = rd('test-curves/src/bls12_381/g1.rs')
            m = re.search(r'let h_eff: &\[u64\] = &\[(0x[0-9a-fA-F]+)\];', src)
            okind = [3, int(m.group(1), 16)]
            heff = H_EFF_BLS381_G1
        elif n == 'bls12_377_g1':
            b = bls['bls12_377']
            okind = [2, _limbs_val(b['x']), int(b['x_is_negative'])]
            heff = _limbs_val(b['x']) - 1
        elif n in ('bls12_381_g2', 'tc_bls12_381_g2'):
            tc = n.startswith('tc_')
            b = bls['tc_bls12_381' if tc else 'bls12_381']
            src = rd('test-curves/src/bls12_381/g2.rs' if tc else 'curves/bls12_381/src/curves/g2.rs')
            c0 = _const_ints(src, 'P_POWER_ENDOMORPHISM_COEFF_0')
            c1 = _const_ints(src, 'P_POWER_ENDOMORPHISM_COEFF_1')
            c2 = _const_ints(src, 'DOUBLE_P_POWER_ENDOMORPHISM' if tc else 'DOUBLE_P_POWER_ENDOMORPHISM_COEFF_0')
            okind = [4, _limbs_val(b['x']), int(b['x_is_negative'])]
            consts = [frob, c0[1]] + c1 + c2          # only COEFF_0.c1 is used by the code
            heff = H_EFF_BLS381_G2
        elif n == 'bls12_377_g2':
            b = bls['bls12_377']
            src = rd('curves/bls12_377/src/curves/g2.rs')
            x = _limbs_val(b['x'])
            okind = [5, x, int(b['x_is_negative'])]
            consts = ([frob] + _const_ints(src, 'P_POWER_ENDOMORPHISM_COEFF_0') + _const_ints(src, 'P_POWER_ENDOMORPHISM_COEFF_1')
                      + _const_ints(src, 'DOUBLE_P_POWER_ENDOMORPHISM_COEFF_0'))
            heff = h * (3 * x * x - 3)
        elif n == 'bn254_g1':
            okind = [6]
        elif n == 'bn254_g2':
            src = rd('curves/bn254/src/curves/g2.rs')
            m = re.search(r'const SIX_X_SQUARED: \[u64; 2\] = \[(\d+), (\d+)\];', src)
            okind = [7, int(m.group(1)) + (int(m.group(2)) << 64), 0]
            consts = ([frob] + _const_ints(src, 'P_POWER_ENDOMORPHISM_COEFF_0') + _const_ints(src, 'P_POWER_ENDOMORPHISM_COEFF_1'))
        e['okind'], e['consts'], e['heff'] = okind, consts, heff
        out['%s%d' % (j['kind'], j['id'])] = e
    return out


def pre(ctx):
    """dump the constants of every shipped configuration from the Rust configs (`c12 params`) and the
    private constants of the overrides from the sources; store them in params.json"""
    _gen2_regen(ctx)
    _gen3_regen(ctx)
    import vcheck, subprocess
    hdir, tdir = ctx['harness_dir']()
    rc, out = ctx['sh']('cargo build --offline --bin c12', cwd=hdir, timeout=3000, env={'RUSTFLAGS': '--cfg ' + vcheck.GUARD})
    if rc != 0:
        ctx['notes'].append('params: harness does not build; kept previous params.json')
        return
    p = subprocess.run([tdir + '/debug/c12', 'params'], stdout=subprocess.PIPE, text=True, timeout=600)
    if p.returncode != 0:
        ctx['notes'].append('params: dump failed; kept previous params.json')
        return
    try:
        d = build_params(ctx, [json.loads(l) for l in p.stdout.splitlines() if l.strip()])
    except Exception as ex:
        ctx['notes'].append('params: %s; kept previous params.json' % ex)
        return
    target = PARAMS if not ctx['ALT'] else ctx['BUILD'] + '/alt/C12_params.json'
    old = json.load(open(target)) if os.path.exists(target) else None
    if d != old:
        with open(target, 'w') as f:
            json.dump(d, f, sort_keys=True, indent=0)
            f.write('\n')
        ctx['notes'].append('params.json regenerated from the Rust configuration')
    global _PARAMS_PATH
    _PARAMS_PATH = target


_PARAMS_PATH = PARAMS


def shipped():
    d = json.load(open(_PARAMS_PATH))
    out = []
    for key in sorted(d, key=lambda k: d[k]['id']):
        e = d[key]
        p, deg, nr = e['field']
        F = cl.Fld(p, deg, nr)
        if e['kind'] == 'sw':
            c = cl.SW(e['id'], e['name'], F, e['a'], e['bd'])
        else:
            c = cl.TE(e['id'], e['name'], F, e['a'], e['bd'])
        c.gen = (tuple(e['g'][0]), tuple(e['g'][1]))
        c.r, c.cinv, c.hl = e['r'], e['cinv'], e['hl']
        c.h = _limbs_val(c.hl)
        c.okind, c.consts, c.heff = e['okind'], e['consts'], e['heff']
        out.append(c)
    return out


def toy():
    out = []
    for c in cl.TOY_SW + cl.TOY_TE:
        c.pts = cl.setup(c)
        c.hl, c.okind, c.consts, c.heff = [c.h], [0], [], c.h
        out.append(c)
    return out


def head(c):
    F = c.F
    return [[c.cid], [F.p, F.deg, F.nr], list(c.a), list(c.b if c.kind == 'sw' else c.d),
            [c.r, c.cinv, c.heff], list(c.hl), list(c.okind), list(c.consts)]


def pt(c, P):
    if c.kind == 'sw':
        if P is None:
            return list(c.F.zero) * 2 + [1]
        return list(P[0]) + list(P[1]) + [0]
    return list(P[0]) + list(P[1])


def small_primes(n, bound=300000):
    out, d = [], 2
    while d < bound and d * d <= n:
        if n % d == 0:
            out.append(d)
            while n % d == 0:
                n //= d
        d += 1
    if 1 < n < bound:
        out.append(n)
    return out


def lift(c, rng):
    """a curve point from an arbitrary coordinate (SW: x, TE: y) -- the construction the property
    quantifies over; mostly outside the subgroup when h > 1.  returns (coord, greatest, hint, P)"""
    F = c.F
    while True:
        v = F.rand(rng)
        P = c.lift_x(v) if c.kind == 'sw' else c.lift_y(v)
        if P is not None:
            if rng.randrange(2):
                P = c.neg(P)
            return P


def classify(c, P):
    if P == c.ident:
        return 'identity'
    return 'subgroup' if c.mul(c.r, P) == c.ident else 'outside'


def point_ops(c, P, cls):
    """the three point ops on one point"""
    k = c.kind
    h = head(c)
    # BRANCH (default test): cofactor_is_one() shortcut -> classes on h = 1 curves; r * P loop otherwise
    yield k + '_sub', h + [pt(c, P)], cls
    # BRANCH (clear_cofactor): default mul_by_cofactor / h_eff multiplication / Budroni-Pintore
    yield k + '_clear', h + [pt(c, P)], cls
    yield k + '_cofinv', h + [pt(c, P)], cls


def sample_case(c, v, greatest, rng):
    F = c.F
    if c.kind == 'sw':
        P = c.lift_x(v)
    else:
        P = c.lift_y(v)
    hint = F.zero if P is None else (P[1] if c.kind == 'sw' else P[0])
    if P is not None and rng.randrange(2):
        hint = F.neg(hint)                      # either root is an acceptable hint
    return c.kind + '_sample', head(c) + [list(v), [int(greatest)], list(hint)], 'sample/' + ('none' if P is None else 'some')


def gen_big(c, rng, n):
    """n rounds on a shipped curve"""
    F = c.F
    ells = small_primes(c.h)
    G = c.gen
    for P, cls in ((c.ident, 'identity'), (G, 'subgroup/generator'), (c.neg(G), 'subgroup/neg_generator')):
        yield from point_ops(c, P, cls)
    for i in range(n):
        P = lift(c, rng)
        if P is None:
            continue
        # points from arbitrary coordinates: outside the subgroup with probability 1 - 1/h
        yield from point_ops(c, P, 'arbitrary/' + ('h1' if c.h == 1 else 'cof'))
        if c.h == 1:
            continue
        # small-order points: (h r / l) P has order dividing l; r P lies in the cofactor part
        if ells:
            l = ells[i % len(ells)]
            S = c.mul(c.h // l * c.r, P)
            if S is not None:
                # BRANCH (bls12_381 G1): early-out `x P == P && P != O` is taken by points whose order divides x - 1
                yield from point_ops(c, S, 'small_order/%d%s' % (l, '/identity' if S == c.ident else ''))
                # subgroup point + small-order point: outside, but r P has small order
                Q = c.add(c.mul(rng.randrange(1, c.r), G), S)
                if Q is not None:
                    yield c.kind + '_sub', head(c) + [pt(c, Q)], 'subgroup_plus_small/%d' % l
                    yield c.kind + '_clear', head(c) + [pt(c, Q)], 'subgroup_plus_small/%d' % l
        if i % 3 == 0:
            S = c.mul(c.r, P)
            if S is not None:
                yield from point_ops(c, S, 'cofactor_part')
        # subgroup points
        if i % 2 == 0:
            Q = c.mul(rng.randrange(1, c.r), G) if i % 4 == 0 else c.mul(c.h, P)
            if Q is not None:
                yield from point_ops(c, Q, 'subgroup')
    # sampling: arbitrary coordinates incl. 0, 1, -1 (BRANCH: get_*_unchecked returns None / Some; greatest flag)
    for v in [F.zero, F.one, F.neg(F.one)] + [F.rand(rng) for _ in range(max(2, n // 2))]:
        yield sample_case(c, v, rng.randrange(2), rng)


def gen_toy(c, rng, tier):
    """exhaustive over all points (and all x / y for the sampling op) of a toy curve"""
    F = c.F
    if getattr(c, 'complete', True) is False:
        # incomplete twisted Edwards curve: only the sampling op, and only where the cofactor
        # multiplication meets no exceptional pair (outside that the unified formulas are not the
        # group law: not in the property's domain)
        # BRANCH (get_xs_from_y_unchecked): denominator a - d y^2 = 0 -> None (y = +-2 here)
        for v in F.all():
            P = c.lift_y(v)
            if P is not None and (c.mul(c.h, P) is None or c.mul(c.h, c.neg(P)) is None):
                continue
            for g in (0, 1):
                op, a, cl_ = sample_case(c, v, g, rng)
                yield op, a, cl_ + ('/den0' if F.sub(c.a, F.mul(c.d, F.sq(v))) == F.zero else '/incomplete')
        yield c.kind + '_params', head(c), 'params'
        return
    for P in c.pts:
        yield from point_ops(c, P, 'toy/' + classify(c, P))
    for v in F.all():
        for g in (0, 1):
            yield sample_case(c, v, g, rng)
    yield c.kind + '_params', head(c), 'params'


# Branches of the anchored Rust code and the classes that execute them:
#  BRANCH CurveConfig::cofactor_is_one true            -> toy SW 1, 2 (h = 1), secp256k1: every class (test answers true without a loop)
#  BRANCH cofactor_is_one false, low limb 1, high != 0 -> bls12_377 G2 (COFACTOR = [1, 0x4522.., ...]): all classes
#  BRANCH SW default test, r * P loop                  -> every curve with h > 1 and no override (toy 3..12, bls12_377, mnt4/6, bw6, jubjub_sw, ...)
#  BRANCH TE default test (never short-circuited)      -> all TE curves
#  BRANCH bls12_381 G1 early-out `xP == P && !inf`      -> small_order/3, /11, /10177 (orders dividing x - 1), cofactor_part
#  BRANCH bls12_381 G1 sigma comparison (GLV mul)      -> identity (skips the early-out through `!p.infinity`), subgroup, arbitrary
#  BRANCH bls12_381 G2 psi test, X_IS_NEGATIVE negate  -> cfg 102 and 104 (test-curves copy: BigInt::new([X[0],0,0,0]))
#  BRANCH bn254 G1 `true`                              -> cfg 107 (every point of E(F_q) is a subgroup point: h = 1)
#  BRANCH bn254 G2 [6x^2]P == psi(P)                    -> cfg 108, outside / small-order / subgroup points
#  BRANCH clear_cofactor default / h_eff (3 variants)  -> *_clear on kinds 0 / 1, 2, 3
#  BRANCH Budroni-Pintore with / without negations     -> cfg 102, 104 (x < 0) / 106 (x > 0); identity input: all terms O
#  BRANCH get_ys_from_x_unchecked None / Some, y < -y  -> sample/none, sample/some with greatest = 0 / 1 (toy: every x)
#  BRANCH get_xs_from_y_unchecked denominator == 0     -> toy TE 7 (incomplete), class sample/none/den0
#  BRANCH Distribution::sample (rejection loop + cofactor multiplication) -> extra(): *_rand then *_check
def gen(rng, tier):
    for c in toy():
        yield from gen_toy(c, rng, tier)
    n = {'quick': 10, 'thorough': 120}[tier]
    for c in shipped():
        yield c.kind + '_params', head(c), 'params'
        yield from gen_big(c, rng, n)


def extra(ctx, cases, lines, impl_out, model_out):
    """random sampling only produces subgroup points: run `Affine::rand` / `Projective::rand` (the
    real rejection loop + cofactor multiplication) in the harness, then decide membership of every
    returned point with the model (curve equation and r * P = O by the proved double-and-add)"""
    import vcheck, subprocess
    if impl_out is None:
        return []
    model_bin = '%s/bin/model_C12' % ((ctx['BUILD'] + '/alt') if ctx.get('ALT') else ctx['BUILD'])
    if not os.path.exists(model_bin):
        return []
    thorough = ctx['tier'] == 'thorough'
    cfgs = [c for c in toy() + shipped() if getattr(c, 'complete', True) is not False]
    rl = []
    for c in cfgs:
        cnt = (40 if thorough else 8) if c.cid < 100 else (10 if thorough else 2)
        rl.append(vcheck.case_line(OPS, c.kind + '_rand', head(c) + [[ctx['seed'] % (1 << 32) + c.cid, cnt]]))
    ro = vcheck.run_sharded(ctx['hbin_path'], rl, 16, timeout=1200)
    chk, meta = [], []
    bad = []
    for c, l, o in zip(cfgs, rl, ro):
        parts = (o or '').split(' ')
        if parts[0] != '0':
            bad.append(({'case': {'op': c.kind + '_rand', 'args': [], 'class': 'rand'}, 'line': l[:200], 'impl': o, 'model': None,
                         'why': 'rand failed'}, 'rand'))
            continue
        for t in parts[1:]:
            a = head(c) + [vcheck.parse_arg(t)]
            chk.append(vcheck.case_line(OPS, c.kind + '_check', a))
            meta.append({'op': c.kind + '_check', 'args': a, 'class': 'rand_output'})
    mo = vcheck.run_sharded(['sh', '-c', 'ulimit -s unlimited 2>/dev/null; exec %s' % model_bin], chk, 16, timeout=1200)
    io = vcheck.run_sharded(ctx['hbin_path'], chk, 16, timeout=1200)
    for m, l, a, b_ in zip(meta, chk, mo, io):
        if a != '0 1 1' or b_ != '0 1 1':
            bad.append(({'case': m, 'line': l, 'impl': b_, 'model': a,
                         'why': 'a point returned by rand() is not a subgroup point of the curve'}, 'rand'))
    ctx['notes'].append('extra: %d points returned by Affine::rand / Projective::rand checked (on curve, r P = O)' % len(chk))
    return bad


def is_toy(case):
    return case['args'][0][0] < 100


def xcheck_ok(case):
    return is_toy(case)


def nontrivial(case, out):
    return not case['op'].endswith('_params')


RULE = ('every point of 12 toy SW / 6 complete toy TE curves (cofactors 1,2,3,4,6,8,9,12) and every x / y coordinate for the sampling op (+ 1 incomplete TE curve, sampling only); '
        'on the shipped curves: identity, generator, points from arbitrary coordinates (outside the subgroup), small-order points '
        '(h r / l) P for the small primes l | h, r P, subgroup + small-order, subgroup points; non-trivial = every case except the '
        '*_params ops; distinct = distinct case lines')
XCHECK = {'quick': 300, 'thorough': 1500}
TRUSTED = ['props/C12/curvelib.py only builds inputs (points); square roots for the sampling op are hints re-checked by the model',
           'constants of the overrides that are private in the crates are read from the Rust sources by regular expressions (prop.py build_params)']
ASSUMPTIONS = ['default features',
               'Field::sqrt(v).is_some() is modelled by the Euler criterion (sqrt itself is property C11)',
               'scalars are the integer values of the u64 limb slices (BitIteratorBE::without_leading_zeros = binary expansion)']
HYPOTHESES = ['good_field F (C03): field_theory of the dictionary with Leibniz equality, feqb decides equality, 1 + 1 <> 0',
              'sw_law_assoc / te_law_assoc: the affine chord-and-tangent / Edwards law is associative on curve points (classical, not formalised)',
              'sw_killed_by F a b (m * r): every curve point is killed by m r (#E = h r by point counting + Lagrange for m = h; exponent of E(F_q) divides h_eff r for the optimised maps)',
              'te_law_complete: the Edwards denominators never vanish on curve points (C03_te_complete: a square, d non-square)',
              'C12_psi_test_sound_partial only: psi(P) = [s]P implies r P = O on the curve (eprint 2021/1130, 2022/352)']


# associativity of both affine laws is PROVED (coq/Assoc, pinned in Props/Assoc.v): the headline C12/Link statements without that premise
EXTRA_PROP_FILES = ['Assoc']

# T-field translator, table 2 (lib/xlate_field.py --table2): coq/Gen/GenField2.v (hash-to-curve maps, coordinate recovery,
# subgroup tests / endomorphisms incl. the bls12_381 and bn254 overrides) is regenerated from the working tree before the Coq
# build; Props/Gen2.v (generated = the C13 / C09 / C12 models + corollaries) is a strict obligation
STRICT_PROP_FILES = ['Gen2', 'Gen3']


def _gen2_regen(ctx):
    import importlib.util, os
    sp = importlib.util.spec_from_file_location('gen_pre2', os.path.join(ctx['ROOT'], 'props', 'Gen', 'pre2.py'))
    m = importlib.util.module_from_spec(sp); sp.loader.exec_module(m)
    m.regen(ctx)

# T-field translator, table 3 (lib/xlate_field.py --table3): per-curve hook overrides (Fp2/Fp3/Fp6 non-residue hooks,
# mul_by_a), tower helpers (norm, cyclotomic inverse, mul_by_fp*, Frobenius coefficient hooks), SubAssign / cofactor code,
# point serialisation; Props/Gen3.v is a strict obligation
def _gen3_regen(ctx):
    import importlib.util, os
    sp = importlib.util.spec_from_file_location('gen_pre3', os.path.join(ctx['ROOT'], 'props', 'Gen', 'pre3.py'))
    m = importlib.util.module_from_spec(sp); sp.loader.exec_module(m)
    m.regen(ctx)

