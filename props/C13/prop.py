"""C13: hash-to-field / hash-to-curve (RFC 9380).  Case generator + property metadata."""
import sys, os, json, subprocess, hashlib
sys.path.insert(0, '/verif/lib')
sys.path.insert(0, os.path.dirname(os.path.abspath(__file__)))
import ref

OPS = {'h2f': 1, 'parity': 2, 'swu': 3, 'wb': 4, 'ell2': 5, 'hash': 6, 'config_ok': 7, 'params': 99}
XMD_OP = 8          # model-only op (the expander is private in ark-ff): used by extra()

HERE = os.path.dirname(os.path.abspath(__file__))
PARAMS = HERE + '/params.json'
EXC = HERE + '/exceptional.json'

# configuration ids of harness/src/bin/c13.rs
FIELD_CFGS = {1: 't381_fq', 2: 't381_fq2', 3: 'c381_fq', 4: 'c381_fq2', 5: 'c377_fq', 6: 'c377_fq2',
              7: 'c381_fr', 8: 'secp256k1_fq', 9: 'f127', 10: 'f101', 11: 'mnt4_753_fq', 12: 'f103', 13: 'fm61'}
# curve cfg -> (name, kind): kind 1 = SWU only, 2 = SWU + isogeny (WB), 3 = Elligator 2
CURVE_CFGS = {21: ('t381_g1', 2), 22: ('t381_g2', 2), 23: ('c381_g1', 2), 24: ('c381_g2', 2),
              25: ('c377_g1', 2), 26: ('c377_g2', 2), 27: ('toy127_swu', 1), 28: ('toy127_wb', 2),
              31: ('bandersnatch', 3), 32: ('toy101_ell2', 3),
              # Elligator 2 over primes p = 3 (mod 4), where the exceptional denominator 1 + Z u^2 HAS roots (-1 is a
              # non-square, so -1/Z is a square for every non-square Z): F_103 (two curves: g(-J/K) square / non-square,
              # Z = -1 / Z = 5), F_127 (Z = 3, cofactor 4), F_(2^61 - 1) (two curves, Z = -1 / Z = 3).  Over the
              # p = 1 (mod 4) fields of cfg 31 / 32 that branch is dead code (seeded change C13/8 was missed for that reason)
              33: ('toy103a_ell2', 3), 34: ('toy103b_ell2', 3), 35: ('toy127_ell2', 3),
              36: ('m61a_ell2', 3), 37: ('m61b_ell2', 3)}
TOY = {27, 28, 32, 33, 34, 35}
TOY_FIELDS = {9, 10, 12}
# which map(s) a curve kind executes, for the translator-failure escalation (see pre / gen)
KIND_MAPS = {1: {'swu'}, 2: {'swu'}, 3: {'elligator2'}}
# T-field table-2 targets owned by this package -> map name
OWNED_TARGETS = {'gen_swu_map_to_curve': 'swu', 'gen_elligator2_map_to_curve': 'elligator2'}
# maps whose translator obligation could not be re-established on the current source text (filled by pre())
ESCALATE = set()

# Effective cofactors (specification constants, not in the Rust configuration: the curve crates
# clear the cofactor with endomorphism formulas).  RFC 9380 8.8.1 / 8.8.2 for BLS12-381;
# for BLS12-377: G1 = x - 1 (the crate's own choice), G2 = 3 (x^2 - 1) h2 (Budroni-Pintore,
# the scalar the psi-formula is equivalent to).
X381 = -0xd201000000010000
X377 = 0x8508c00000000001
H_EFF_381_G2 = 0xbc69f08f2ee75b3584c6a0ea91b352888e2a8e9145ad7689986ff031508ffe1329c2f178731db956d82bf015d1212b02ec0ec69d7477c1ae954cbc06689f6a359894c0adebbf6b4e8020005aaa95551


def h_eff(cfg, P):
    cof = P[str(cfg)][-1][0]
    if cfg in (21, 23):
        return 1 - X381
    if cfg in (22, 24):
        assert 3 * (X381 * X381 - 1) * cof == H_EFF_381_G2
        return H_EFF_381_G2
    if cfg == 25:
        return X377 - 1
    if cfg == 26:
        return 3 * (X377 * X377 - 1) * cof
    return cof


def _run_harness(ctx, lines):
    import vcheck
    rc, out = ctx['sh']('cargo build --offline --bin c13', cwd=ctx['harness_dir']()[0], timeout=3000,
                        env={'RUSTFLAGS': '--cfg ' + vcheck.GUARD})
    if rc != 0:
        return None
    p = subprocess.run([ctx['harness_dir']()[1] + '/debug/c13'], input='\n'.join(lines) + '\n',
                       stdout=subprocess.PIPE, text=True, timeout=600)
    outl = p.stdout.splitlines()
    if p.returncode != 0 or len(outl) != len(lines):
        return None
    return outl


def pre(ctx):
    """dump the constants of every configuration from the compiled Rust code (params.json) and solve
    for the exceptional inputs of the maps (exceptional.json, cached on the params digest)"""
    n0 = len(ctx['notes'])
    _gen2_regen(ctx)
    _escalation_from_notes(ctx, ctx['notes'][n0:])
    import vcheck
    ids = sorted(FIELD_CFGS) + sorted(CURVE_CFGS)
    outl = _run_harness(ctx, ['%d:params %x' % (OPS['params'], i) for i in ids])
    if outl is None:
        ctx['notes'].append('params: harness does not build / params dump failed; kept previous params.json')
        return
    d = {}
    for i, l in zip(ids, outl):
        parts = l.split(' ')
        if parts[0] != '0':
            ctx['notes'].append('params: cfg %d -> %s' % (i, l[:40]))
            continue
        d[str(i)] = [vcheck.parse_arg(t) for t in parts[1:]]
    old = json.load(open(PARAMS)) if os.path.exists(PARAMS) else None
    if d != old:
        with open(PARAMS, 'w') as f:
            json.dump(d, f, sort_keys=True)
            f.write('\n')
        ctx['notes'].append('params.json regenerated from the Rust configuration')
    if gen_isodata(d, ctx.get('COQ', '/verif/coq')):
        ctx['notes'].append('IsoData.v regenerated: isogeny constants changed')
    exceptional(d)



ISO_NAMES = {21: 't381_g1', 22: 't381_g2', 23: 'c381_g1', 24: 'c381_g2', 25: 'c377_g1', 26: 'c377_g2', 28: 'toy127'}


def gen_isodata(P, coq_dir):
    """coq/C13/IsoData.v: the isogeny coefficient lists of every WB configuration, as dumped from the compiled
    Rust constants, so that `iso_identity` on them is a kernel-checked closed fact (Props/C13.v)"""
    out = ['(* GENERATED by props/C13/prop.py:gen_isodata from the constants of the compiled Rust configurations',
           '   (harness op `params`); do not edit.  Fp2 elements are pairs (c0, c1). *)',
           'From V Require Import Base.Field C13.Poly.', '']
    for cfg, name in sorted(ISO_NAMES.items()):
        p = P.get(str(cfg))
        if p is None:
            continue
        deg, mod = p[0][0], p[0][1]
        nr = p[0][2] if deg == 2 else 0

        def el(c):
            return str(c[0]) if deg == 1 else '(%d, %d)' % (c[0], c[1])

        def lst(flat):
            return '[' + '; '.join(el(flat[i:i + deg]) for i in range(0, len(flat), deg)) + ']'
        ops = 'ZpOps %d' % mod if deg == 1 else 'QuadOps (ZpOps %d) %d' % (mod, nr)
        T = 'Z' if deg == 1 else '(Z * Z)%type'
        out.append('Definition F_%s : Fops %s := %s.' % (name, T, ops))
        c = [p[2][i:i + deg] for i in range(0, len(p[2]), deg)]
        t = [p[3][i:i + deg] for i in range(0, len(p[3]), deg)]
        out.append('Definition iso_%s_a\' : %s := %s.' % (name, T, el(c[0])))
        out.append('Definition iso_%s_b\' : %s := %s.' % (name, T, el(c[1])))
        out.append('Definition iso_%s_A : %s := %s.' % (name, T, el(t[0])))
        out.append('Definition iso_%s_B : %s := %s.' % (name, T, el(t[1])))
        for nm, k in (('xn', 4), ('xd', 5), ('yn', 6), ('yd', 7)):
            out.append('Definition iso_%s_%s : list %s := %s.' % (name, nm, T, lst(p[k])))
        out.append('Definition iso_%s_ok : bool :=' % name)
        out.append('  iso_identity (f0 F_%s) (f1 F_%s) (fadd F_%s) (fmul F_%s) (feqb F_%s)' % ((name,) * 5))
        out.append("    iso_%s_a' iso_%s_b' iso_%s_A iso_%s_B iso_%s_xn iso_%s_xd iso_%s_yn iso_%s_yd." % ((name,) * 8))
        out.append('')
    text = '\n'.join(out)
    path = coq_dir + '/C13/IsoData.v'
    if not os.path.exists(path) or open(path).read() != text:
        with open(path, 'w') as f:
            f.write(text)
        return True
    return False

# ------------------------------------------------------------------ exceptional inputs
def _split(F, flat):
    k = F.deg
    return [F.of(flat[i:i + k]) for i in range(0, len(flat), k)]


def solve_swu_u(F, a, b, z, x0):
    """all u with x1(u) = x0 or x2(u) = x0 (t = Z u^2)"""
    us = []
    m = F.neg(F.div(F.mul(a, x0), b))            # -a x0 / b
    # x1 = x0  <=>  t^2 + t = 1 / (m - 1)
    polys = []
    if not F.is0(F.sub(m, F.one)):
        c = F.inv(F.sub(m, F.one))
        polys.append([F.neg(c), F.one, F.one])
    # x2 = x0  <=>  t^2 + t + 1 = m (t + 1)
    polys.append([F.sub(F.one, m), F.sub(F.one, m), F.one])
    for f in polys:
        for t in F.roots(f):
            u = F.sqrt(F.div(t, z))
            if u is not None:
                us += [u, F.neg(u)]
    return us


def exceptional(P):
    key = hashlib.sha256(json.dumps(P, sort_keys=True).encode()).hexdigest()
    if os.path.exists(EXC):
        old = json.load(open(EXC))
        if old.get('key') == key:
            return old
    res = {'key': key}
    for cfg, (name, kind) in CURVE_CFGS.items():
        p = P.get(str(cfg))
        if p is None:
            continue
        F = ref.Fld(p[0])
        ex = {}
        if kind in (1, 2):
            a, b, z = _split(F, p[2])
            # Z^2 u^4 + Z u^2 = 0, u != 0  <=>  Z u^2 = -1
            r = F.sqrt(F.neg(F.inv(z)))
            ex['swu_den0'] = [F.coords(r), F.coords(F.neg(r))] if r is not None else []
            # gx1 = 0 : x1 (or x2) is a root of g (2-torsion of E')
            gr = F.roots([b, a, F.zero, F.one])
            ex['swu_g_root'] = [F.coords(u) for x0 in gr for u in solve_swu_u(F, a, b, z, x0)]
            if kind == 2:
                xd = _split(F, p[5])
                yd = _split(F, p[7])
                xs = F.roots(xd)
                ys = F.roots(yd)
                allx = xs + [y for y in ys if y not in xs]
                ex['iso_den_roots'] = [F.coords(x) for x in allx]
                us = []
                for x0 in allx:
                    if F.is_square(F.peval([b, a, F.zero, F.one], x0)):
                        us += solve_swu_u(F, a, b, z, x0)
                ex['iso_kernel_u'] = [F.coords(u) for u in us]
        else:
            J, K, jk, ki, z, ta, td = _split(F, p[2])
            r = F.sqrt(F.neg(F.inv(z)))
            ex['ell_den0'] = [F.coords(r), F.coords(F.neg(r))] if r is not None else []
            us = []
            # gx1 = 0: x1^2 + (J/K) x1 + 1/K^2 = 0 ; tv2 = 0 with s = -1: x = -1/K
            xs = F.roots([ki, jk, F.one]) + [F.neg(F.inv(K))]
            for x0 in xs:
                # x1 = -jk / (1 + z u^2) = x0  or  x2 = -x1 - jk = x0
                for x1 in (x0, F.sub(F.neg(x0), jk)):
                    if F.is0(x1):
                        continue
                    t = F.sub(F.div(F.neg(jk), x1), F.one)      # z u^2
                    u = F.sqrt(F.div(t, z))
                    if u is not None:
                        us += [u, F.neg(u)]
            ex['ell_special_u'] = [F.coords(u) for u in us]
        res[str(cfg)] = ex
    with open(EXC, 'w') as f:
        json.dump(res, f, sort_keys=True)
        f.write('\n')
    return res


def load_params():
    return json.load(open(PARAMS))


# ------------------------------------------------------------------ case construction
def field_args(P, cfg):
    return P[str(cfg)][0]


def curve_args(P, cfg, a1, a2):
    """[cfg;kind] a1 a2 field precomp mapconsts target [h_eff; r] xn xd yn yd"""
    name, kind = CURVE_CFGS[cfg]
    p = P[str(cfg)]
    heff = h_eff(cfg, P)
    r = p[-1][1]
    if kind == 1:
        return [[cfg, kind], a1, a2, p[0], p[1], p[2], p[2][:2 * p[0][0]], [heff, r]]
    if kind == 2:
        return [[cfg, kind], a1, a2, p[0], p[1], p[2], p[3], [heff, r], p[4], p[5], p[6], p[7]]
    return [[cfg, kind], a1, a2, p[0], p[1], p[2], [], [heff, r]]


def bytes_of(rng, n, kind=None):
    k = kind if kind is not None else rng.randrange(4)
    if k == 0:
        return [0] * n
    if k == 1:
        return [255] * n
    if k == 2:
        return [97 + (i % 26) for i in range(n)]
    return [rng.randrange(256) for _ in range(n)]


INCLUDE_DEFECT_1 = True   # kernel inputs are always generated: the defect was repaired in /repo by fix: commit e35f1c7
MSG_LENS = [0, 1, 55, 56, 64, 65, 1000]
DST_LENS = [0, 1, 255, 256, 1000]
RFC_DST = {'g1': b'QUUX-V01-CS02-with-BLS12381G1_XMD:SHA-256_SSWU_RO_',
           'g2': b'QUUX-V01-CS02-with-BLS12381G2_XMD:SHA-256_SSWU_RO_'}

# expected values of the fixed (RFC / repo test-vector) cases: case line key -> expected output prefix
EXPECT = {}


def repo_dir():
    return os.environ.get('VERIF_REPO', '/repo').rstrip('/')


def rfc_suite_cases(P):
    """the RFC 9380 appendix J.9.1 / J.10.1 vectors (and the BLS12-377 vectors of the curve crate), read
    from the JSON files shipped with the repository tests: hash_to_field, map (Q0, Q1) and full hash"""
    files = [('test-curves/src/testdata/BLS12381G1_XMD-SHA-256_SSWU_RO_.json', [21, 23], [1, 3]),
             ('test-curves/src/testdata/BLS12381G2_XMD-SHA-256_SSWU_RO_.json', [22, 24], [2, 4]),
             ('curves/bls12_377/src/curves/tests/BLS12377G1_XMD-SHA-256_SSWU_RO_.json', [25], [5]),
             ('curves/bls12_377/src/curves/tests/BLS12377G2_XMD-SHA-256_SSWU_RO_.json', [26], [6])]
    out = []

    def coords(v):
        return [int(t, 16) for t in v.split(',')]
    for path, ccfgs, fcfgs in files:
        try:
            d = json.load(open(repo_dir() + '/' + path))
        except Exception:
            continue
        dst = list(d['dst'].encode())
        for v in d['vectors']:
            msg = list(v['msg'].encode())
            us = [coords(u) for u in v['u']]
            for fc in fcfgs:
                out.append(('h2f', [[fc, 2, 128], msg, dst, field_args(P, fc)], 'rfc/h2f', [[0]] + us))
            for cc in ccfgs:
                for u, Q in zip(us, (v['Q0'], v['Q1'])):
                    out.append(('wb', curve_args(P, cc, u, []), 'rfc/map',
                                [[0], coords(Q['x']), coords(Q['y']), [0], [1]]))
                out.append(('hash', curve_args(P, cc, msg, dst), 'rfc/hash',
                            [[0], coords(v['P']['x']), coords(v['P']['y']), [0], [1, 1]]))
    return out


def limb_pattern(rng, F):
    """a base-field value whose LOW 64-bit limb(s) are zero: non-zero and even/odd only through higher limbs (sgn0 /
    parity must look at the whole integer, not at the lowest limb)"""
    if F.p < (1 << 65):
        return rng.randrange(F.p)
    sh = 64 * rng.randrange(1, max(2, (F.p.bit_length() - 1) // 64 + 1))
    top = F.p >> sh
    if top < 2:
        sh = 64; top = F.p >> 64
    return (rng.randrange(1, top) << sh) % F.p


def field_elem(rng, F, k=None):
    k = rng.randrange(10) if k is None else k
    if k >= 8:
        # first non-zero coordinate = a multiple of 2^64, followed (in an extension) by an odd / random coordinate
        if F.deg == 1:
            return F.fromint(limb_pattern(rng, F)), 'u=low_limb_zero'
        c = [0] * F.deg
        i = rng.randrange(F.deg)
        c[i] = limb_pattern(rng, F)
        for j in range(i + 1, F.deg):
            c[j] = rng.choice([1, rng.randrange(F.p) | 1, rng.randrange(F.p)])
        return tuple(c), 'u=low_limb_zero'
    if k == 0:
        return F.zero, 'u=0'
    if k == 1:
        return F.one, 'u=1'
    if k == 2:
        return F.neg(F.one), 'u=-1'
    if k == 3:
        return F.fromint(rng.choice([2, 3, F.p - 2, (F.p - 1) // 2, (F.p + 1) // 2])), 'u=small/half'
    if k == 4 and F.deg == 2:
        return rng.choice([(0, 1), (0, F.p - 1), (0, rng.randrange(F.p)), (rng.randrange(F.p), 0)]), 'u=one_coord_zero'
    return F.rand(rng), 'u=random'


# Special-case branches of the anchored Rust code and the generated class that executes each:
#   expander: dst.len() > 255 -> hashed tag ............ dst lengths 256, 1000 ('dst256', 'dst1000'); <= 255: 0, 1, 255
#   expander: assert ell <= 255 ........................ N=128 (L=64, m=1), N=64 (m=2), N=171 (L=48): 'panic/ell'
#             largest accepted: N=127 / 63 / 170 (ell = 254 / 252 / 255)
#   expander: assert n < 2^16 .......................... unreachable after ell <= 255 for a 32-byte hash (n <= 8160);
#             covered by the model theorem only
#   expander: loop 2..=ell not entered (ell = 0, 1) .... N=0 (n = 0); SEC_PARAM=0 on F127/F101 (L = 1, n = 1, 2)
#   hash_to_field: m = 1 / m = 2 coordinate order ...... Fq and Fq2 configurations, N = 1, 2, 3, 5
#   get_len_per_elem rounding .......................... SEC_PARAM 131 (381+131 = 512 -> 64) vs 132 (-> 65); 0; 128
#   parity: first non-zero coordinate .................. Fq2 elements (0, y), (x, 0), (0, 0), x even / odd
#   swu: ta.is_zero() (u = 0, Z u^2 = -1) .............. 'u=0', 'swu_den0'
#   swu: gx1 QR / non-QR / zero ........................ random u (both), 'swu_g_root' where E' has 2-torsion, toy exhaustive
#   swu: sign flip (parity(y) != parity(u)) ............ random u; exhaustive on F127
#   wb: isogeny denominators vanish (kernel) ........... 'iso_kernel_u' when a rational u reaches a kernel point
#   elligator2: den_1 == 0 ............................. 'ell_den0': live only where -1/Z is a square, i.e. on cfg 33-37
#                                                        (p = 3 mod 4); dead code on cfg 31 / 32 (p = 1 mod 4); toy exhaustive
#   elligator2: gx1 QR / non-QR, sign, tv2 == 0 ........ 'ell_special_u', 'u=0' (x2 = 0 -> (0,0) -> identity), toy exhaustive
#   hasher: Q0 = Q1, Q0 = -Q1 .......................... toy configurations (small groups: random messages collide)
def gen(rng, tier):
    P = load_params()
    EXC_D = exceptional(P)
    scale = 1 if tier == 'quick' else 12
    EXPECT.clear()

    def esc(kind):
        """case multiplier of a curve kind: 10 when the translator lost one of the maps this kind executes"""
        return 10 if KIND_MAPS[kind] & ESCALATE else 1

    def exc_inputs(cfg, F):
        """(u, class) for u = 0, +-1 and every solved exceptional input of the configuration"""
        ex = EXC_D.get(str(cfg), {})
        us = [(F.zero, 'u=0'), (F.one, 'u=1'), (F.neg(F.one), 'u=-1')]
        kernel_u = {tuple(c) for c in ex.get('iso_kernel_u', [])}
        for k, lst in sorted(ex.items()):
            if k == 'iso_den_roots':
                continue
            for c in lst:
                us.append((F.of(c), 'iso_kernel_u' if tuple(c) in kernel_u else k))
        return us

    # ---- fixed vectors (expected values checked in extra())
    for op, args, cls, exp in rfc_suite_cases(P):
        import vcheck
        EXPECT[vcheck.case_line(OPS, op, args)] = exp
        yield op, args, cls

    # ---- configuration premises of the theorems
    for cfg in sorted(CURVE_CFGS):
        yield 'config_ok', curve_args(P, cfg, [], []), 'config'

    # ---- hash_to_field / expander
    def h2f_case(fc, n, sec, msg, dst, cls):
        return 'h2f', [[fc, n, sec], msg, dst, field_args(P, fc)], cls
    # full grid message length x tag length on the main suite field
    for ml in MSG_LENS:
        for dl in DST_LENS:
            fc = rng.choice([1, 2, 3, 5])
            yield h2f_case(fc, rng.choice([1, 2]), 128, bytes_of(rng, ml), bytes_of(rng, dl), 'h2f/grid/msg%d/dst%d' % (ml, dl))
    for _ in range(120 * scale):
        fc = rng.choice([1, 1, 2, 2, 3, 4, 5, 6, 7, 8, 9, 10, 11, 12, 13])
        n = rng.choice([0, 1, 1, 2, 2, 2, 3, 5])
        sec = rng.choice([128, 128, 128, 0, 131, 132])
        ml = rng.choice(MSG_LENS + [rng.randrange(200)])
        dl = rng.choice(DST_LENS + [rng.randrange(1, 300), 254, 257])
        yield h2f_case(fc, n, sec, bytes_of(rng, ml), bytes_of(rng, dl), 'h2f/N%d/sec%d/dst%s' % (n, sec, '>255' if dl > 255 else '<=255'))
    # length limits: the largest accepted request and the first rejected one
    lim = [(1, 127, 128, 'ok/ell254'), (1, 128, 128, 'panic/ell'), (2, 63, 128, 'ok/ell252'), (2, 64, 128, 'panic/ell'),
           (7, 170, 128, 'ok/ell255'), (7, 171, 128, 'panic/ell'), (8, 170, 128, 'ok/ell255'), (8, 171, 128, 'panic/ell'),
           (5, 128, 128, 'panic/ell'), (6, 64, 128, 'panic/ell'), (11, 63, 128, 'ok/L111'), (11, 64, 128, 'ok/L111'),
           (9, 171, 0, 'ok/L1'), (1, 170, 0, 'ok/ell255'), (1, 171, 0, 'panic/ell'), (3, 127, 131, 'ok/ell254'),
           (3, 127, 132, 'panic/ell')]
    for fc, n, sec, cls in lim:
        for _ in range(1 if tier == 'quick' else 3):
            yield h2f_case(fc, n, sec, bytes_of(rng, rng.choice([0, 3, 65])), bytes_of(rng, rng.choice([0, 16, 256])), 'h2f/limit/' + cls)

    # ---- parity
    for _ in range(120 * scale):
        fc = rng.choice([1, 2, 2, 4, 6, 6, 9, 12, 13])
        F = ref.Fld(field_args(P, fc))
        x, c = field_elem(rng, F)
        yield 'parity', [[fc], F.coords(x), [], field_args(P, fc)], 'parity/' + c

    # ---- maps on the toy configurations: exhaustive over the field
    for cfg in sorted(TOY):
        name, kind = CURVE_CFGS[cfg]
        F = ref.Fld(P[str(cfg)][0])
        for u in range(F.p):
            if kind in (1, 2):
                yield 'swu', curve_args(P, cfg, [u], []), 'toy/swu/exhaustive'
            if kind == 2:
                yield 'wb', curve_args(P, cfg, [u], []), 'toy/wb/exhaustive'
            if kind == 3:
                yield 'ell2', curve_args(P, cfg, [u], []), 'toy/ell2/exhaustive'
        # the exceptional inputs once more under their own class (histogram: shows which exceptional branches are live
        # on this configuration; the exhaustive stream above contains them anonymously)
        for u, c in exc_inputs(cfg, F):
            if c in ('u=0', 'u=1', 'u=-1'):
                continue
            if kind in (1, 2):
                yield 'swu', curve_args(P, cfg, F.coords(u), []), name + '/swu/' + c
            if kind == 2:
                yield 'wb', curve_args(P, cfg, F.coords(u), []), name + '/wb/' + c
            if kind == 3:
                yield 'ell2', curve_args(P, cfg, F.coords(u), []), name + '/ell2/' + c

    # ---- maps on the shipped configurations
    for cfg in sorted(set(CURVE_CFGS) - TOY):
        name, kind = CURVE_CFGS[cfg]
        F = ref.Fld(P[str(cfg)][0])
        us = exc_inputs(cfg, F)
        for _ in range((14 if F.deg == 1 else 8) * scale * esc(kind)):
            us.append(field_elem(rng, F, rng.choice([3, 4, 5, 6, 7])))
        for u, c in us:
            if kind == 2:
                yield 'swu', curve_args(P, cfg, F.coords(u), []), name + '/swu/' + c
                # DEFECT-1: u whose SWU image lies in the kernel of the isogeny: the code returns (0, 0) (off the
                # curve) where the identity is due.  Excluded until fixed in /repo or listed as a known finding
                # (class 'iso_kernel_u'); the SWU half of these inputs stays in.
                if c != 'iso_kernel_u' or INCLUDE_DEFECT_1:
                    yield 'wb', curve_args(P, cfg, F.coords(u), []), name + '/wb/' + c
            else:
                yield 'ell2', curve_args(P, cfg, F.coords(u), []), name + '/ell2/' + c

    # ---- full hash
    for cfg in sorted(CURVE_CFGS):
        name, kind = CURVE_CFGS[cfg]
        cnt = (40 if cfg in TOY else (6 if cfg in (22, 24, 26) else 10)) * scale * esc(kind)
        for _ in range(cnt):
            ml = rng.choice([0, 1, 3, 55, 56, 64, 65, rng.randrange(130)])
            dl = rng.choice([0, 1, 16, 43, 255, 256, rng.randrange(300)])
            yield 'hash', curve_args(P, cfg, bytes_of(rng, ml), bytes_of(rng, dl)), name + '/hash/dst%s' % ('>255' if dl > 255 else '<=255')


# ------------------------------------------------------------------ extra checks
def _parse_out(line):
    import vcheck
    return [vcheck.parse_arg(t) for t in line.split(' ')]


def extra(ctx, cases, lines, impl_out, model_out):
    """(1) fixed RFC / repo vectors: both sides must reproduce the expected values;
       (2) the property's predicates: every map output is on its curve, every hash output is on the curve and
           in the prime-order subgroup (flags printed by the harness from the public predicates);
       (3) hash_to_field against an independent hashlib implementation of RFC 9380 whenever L = 64
           (the shipped BLS12 suites; for other L the code pads with L zero bytes -- observation O2);
       (4) expand_message_xmd vectors of /repo/ff/.../testdata against the model's expander (model-only op:
           the expander is private in ark-ff), coded and RFC variants"""
    bad = []
    if impl_out is None or model_out is None:
        return bad
    P = load_params()
    for k, c in enumerate(cases):
        io = impl_out[k]
        if io is None:
            continue
        exp = EXPECT.get(lines[k])
        if exp is not None:
            for side, o in (('impl', io), ('model', model_out[k])):
                if o is None or _parse_out(o) != exp:
                    bad.append(({'case': c, 'line': lines[k], 'impl': io, 'model': model_out[k],
                                 'why': '%s does not reproduce the RFC 9380 / repository test vector' % side}, 'vector'))
                    break
        o = _parse_out(io)
        if c['op'] in ('swu', 'wb', 'ell2', 'hash') and o[0] == [0]:
            flags = o[-1]
            toy = c['args'][0][0] in TOY
            if flags[0] != 1 or (c['op'] == 'hash' and not toy and flags[1:] != [1]):
                bad.append(({'case': c, 'line': lines[k], 'impl': io, 'model': model_out[k],
                             'why': 'output is not on the curve / not in the prime-order subgroup (flags %s)' % flags}, 'predicate'))
        if c['op'] in ('swu', 'wb', 'ell2', 'hash', 'h2f') and o[0] == [2] and '/panic' not in c['class']:
            # a panic outside the documented length-limit class: the property says "for every input"
            bad.append(({'case': c, 'line': lines[k], 'impl': io, 'model': model_out[k],
                         'why': 'panic on an in-domain input'}, 'panic'))
        if c['op'] == 'h2f':
            fc, n, sec = c['args'][0]
            fd = c['args'][3]
            p, m = fd[1], fd[0]
            L = -(-(p.bit_length() + sec) // 8)
            if L == 64:
                r = ref.h2f_rfc(bytes(c['args'][1]), bytes(c['args'][2]), n, p, m, sec)
                want = [[2]] if r is None else [[0]] + r
                if o != want:
                    bad.append(({'case': c, 'line': lines[k], 'impl': io, 'model': model_out[k],
                                 'why': 'differs from the independent hashlib implementation of RFC 9380'}, 'rfc-ref'))
    # (4) expander vectors
    import vcheck
    xl, xe = [], []
    tdir = repo_dir() + '/ff/src/fields/field_hashers/expander/testdata/'
    for fn in ('expand_message_xmd_SHA256_38.json', 'expand_message_xmd_SHA256_256.json'):
        try:
            d = json.load(open(tdir + fn))
        except Exception:
            continue
        dst = list(d['DST'].encode())
        for t in d['tests']:
            n = int(t['len_in_bytes'], 16)
            xl.append('%d:xmd %s %s %s' % (XMD_OP, vcheck.fmt_arg([n, 64]), vcheck.fmt_arg(list(t['msg'].encode())), vcheck.fmt_arg(dst)))
            xe.append(list(bytes.fromhex(t['uniform_bytes'])))
    if xl:
        mb = ctx['BUILD'] + ('/alt' if ctx.get('ALT') else '') + '/bin/model_C13'
        pr = subprocess.run([mb], input='\n'.join(xl) + '\n', stdout=subprocess.PIPE, text=True, timeout=600)
        ol = pr.stdout.splitlines()
        for l, e_, o in zip(xl, xe, ol):
            po = _parse_out(o)
            if po != [[0], e_, e_]:
                bad.append(({'case': {'op': 'xmd', 'args': [], 'class': 'rfc/xmd'}, 'line': l[:300], 'impl': None, 'model': o[:300],
                             'why': 'model expander does not reproduce the expand_message_xmd vector'}, 'vector'))
        ctx['notes'].append('expand_message_xmd (SHA-256) vectors of /repo checked on the model expander: %d' % len(xl))
    return bad


def nontrivial(case, out):
    if case['op'] == 'config_ok':
        return True
    return any(x != 0 for x in case['args'][1]) or any(x != 0 for x in case['args'][2])


def xcheck_ok(case):
    """kernel re-evaluation only where vm_compute on stdlib Z is cheap: toy fields, short hash inputs"""
    cfg = case['args'][0][0]
    if case['op'] in ('swu', 'wb', 'ell2'):
        return cfg in TOY
    if case['op'] == 'parity':
        return True
    if case['op'] == 'h2f':
        return case['args'][0][1] <= 2 and len(case['args'][1]) + len(case['args'][2]) <= 40 and cfg in (1, 3, 5, 9, 10)
    if case['op'] == 'hash':
        return cfg in TOY and len(case['args'][1]) + len(case['args'][2]) <= 40
    return False


XCHECK = {'quick': 48, 'thorough': 160}
RULE = ('messages of length 0,1,55,56,64,65,1000 x tags of length 0,1,255,256,1000 (+ random), N in {0,1,2,3,5} and the '
        'length limits (largest accepted / first rejected request), SEC_PARAM in {0,128,131,132}; maps: u = 0, +-1, the '
        'exceptional inputs solved from the configuration constants (Elligator 2: five curves over p = 3 mod 4 where 1 + Z u^2 '
        'has roots), random u, exhaustive enumeration on the toy fields; x10 on a map whose translator obligation was lost; '
        'RFC 9380 J.9.1/J.10.1 and repository vectors as fixed cases; non-trivial = message/tag/u not all zero')
TRUSTED = ['sha2 crate (SHA-256 used by the Rust side) vs. the FIPS 180-4 model coq/C13/Sha256.v: tied only by the correspondence run',
           'C11 square-root / Legendre models and C03 curve-arithmetic models (imported, proved in their packages)',
           'python reference props/C13/ref.py (hashlib expander, root finding for the exceptional inputs): generator side only',
           'effective cofactors h_eff (RFC 9380 8.8; 3(x^2-1)h2 resp. x-1 for BLS12-377) are specification constants in prop.py']
ASSUMPTIONS = ['debug build: debug_assert! of the maps (div3 != 0, is_on_curve) are active and modelled as panics',
               'clear_cofactor is modelled as multiplication by h_eff (the endomorphism formulas of the curve crates are C12)',
               'from_be_bytes_mod_order is modelled as OS2IP mod p (its limb-level algorithm is C01)']
HYPOTHESES = ['field_theory + decidable equality of the carrier',
              'sqrt_ok: is_qr x = true -> exists r, sqrt x = Some r /\\ r*r = x (C11 theorems for the shipped algorithms)',
              'sqrt_zero: sqrt 0 = Some 0',
              'nonsquare_mul: x <> 0 -> is_qr x = false -> is_qr (Z*x) = true (finite field, Z non-square: index-2 subgroup)',
              'exceptional_ok: is_qr (g(B/(Z*A))) = true (RFC 9380 Z selection criterion 4; re-checked per configuration by config_ok)',
              'parity_neg: y <> 0 -> parity (-y) = negb (parity y) (odd characteristic; sign clause only)',
              'qr_sq_mul: c <> 0 -> is_qr (c*c*x) = is_qr x (Elligator 2 only)',
              'Elligator 2 constants: K <> 0, (J/K)*K = J, (1/K^2)*K^2 = 1, a*K = J+2, d*K = J-2 (re-checked per configuration by config_ok)',
              'iso_identity = true for the isogeny constants (kernel-checked for toy127, BLS12-377 G1, BLS12-381 G2; model-checked every run for all)',
              'sqrt_complete: r <> 0 -> r*r = x -> exists s, sqrt x = Some s /\\ s*s = x (C13_swu_equals_rfc only: the oracle finds a root whenever one exists)',
              'is_qr 0 = false (C13_swu_gx1_zero_value only: the code treats Legendre(0) as non-square, observation O-a)']

# pinned theorems that instantiate this package's abstract-field theorems at the executed ZpOps dictionary
EXTRA_PROP_FILES = ['Bridge2', 'C13Swu', 'Bridge2Swu']

# T-field translator, table 2 (lib/xlate_field.py --table2): coq/Gen/GenField2.v (hash-to-curve maps, coordinate recovery,
# subgroup tests / endomorphisms incl. the bls12_381 and bn254 overrides) is regenerated from the working tree before the Coq
# build; Props/Gen2.v (generated = the C13 / C09 / C12 models + corollaries) is a strict obligation
STRICT_PROP_FILES = ['Gen2']


def _escalation_from_notes(ctx, new_notes):
    """props/Gen/pre2.py:regen reports a table-2 target it could not translate only as a note (the previous generated
    definition is kept, so the strict obligation Props/Gen2.v keeps building -- against the OLD text).  For a target
    this package owns that means: the tie between the Rust text and the proved model is gone for this run and the
    correspondence run has to carry the map alone.  Not a violation by itself (DESIGN 4.2 E), but it must not be
    silent: the generator spends 10x the cases on the affected map and adds every exceptional input of every
    configured curve (gen: ESCALATE)."""
    ESCALATE.clear()
    for n in new_notes:
        if 'T-field translator' not in n:
            continue
        hit = {m for t, m in OWNED_TARGETS.items() if t in n}
        if not hit and ('could not translate the current source' in n or 'internal error' in n):
            hit = set(OWNED_TARGETS.values())          # the whole table failed: every owned target is affected
        ESCALATE.update(hit)
    if ESCALATE:
        ctx['notes'].append('C13: translator obligation NOT re-established for map(s) %s on the current source text '
                            '(Props/Gen2.v was checked against the previous text only): generator escalated x10 for these maps, '
                            'all exceptional inputs of all configured curves included' % ', '.join(sorted(ESCALATE)))


def _gen2_regen(ctx):
    import importlib.util, os
    sp = importlib.util.spec_from_file_location('gen_pre2', os.path.join(ctx['ROOT'], 'props', 'Gen', 'pre2.py'))
    m = importlib.util.module_from_spec(sp); sp.loader.exec_module(m)
    m.regen(ctx)

