"""Small independent reference used by the C13 generator: F_p / F_p^2 arithmetic, square roots,
root finding of univariate polynomials (to solve for the exceptional inputs of the maps), and an
RFC 9380 expand_message_xmd / hash_to_field written directly on hashlib."""
import hashlib, random


class Fld:
    """F_p (deg 1, elements = int) or F_p[i]/(i^2 - nr) (deg 2, elements = (c0, c1))"""
    def __init__(self, desc):
        self.deg, self.p = desc[0], desc[1]
        self.nr = desc[2] % self.p if len(desc) > 2 else 0
        self.q = self.p ** self.deg
        self.zero = 0 if self.deg == 1 else (0, 0)
        self.one = 1 if self.deg == 1 else (1, 0)

    def of(self, c):
        return c[0] % self.p if self.deg == 1 else (c[0] % self.p, c[1] % self.p)

    def coords(self, x):
        return [x] if self.deg == 1 else [x[0], x[1]]

    def fromint(self, n):
        return n % self.p if self.deg == 1 else (n % self.p, 0)

    def add(self, a, b):
        p = self.p
        return (a + b) % p if self.deg == 1 else ((a[0] + b[0]) % p, (a[1] + b[1]) % p)

    def sub(self, a, b):
        p = self.p
        return (a - b) % p if self.deg == 1 else ((a[0] - b[0]) % p, (a[1] - b[1]) % p)

    def neg(self, a):
        return self.sub(self.zero, a)

    def mul(self, a, b):
        p = self.p
        if self.deg == 1:
            return a * b % p
        return ((a[0] * b[0] + self.nr * a[1] * b[1]) % p, (a[0] * b[1] + a[1] * b[0]) % p)

    def inv(self, a):
        p = self.p
        if self.deg == 1:
            return pow(a, p - 2, p)
        n = pow((a[0] * a[0] - self.nr * a[1] * a[1]) % p, p - 2, p)
        return (a[0] * n % p, (-a[1]) * n % p)

    def div(self, a, b):
        return self.mul(a, self.inv(b))

    def pow(self, a, e):
        r = self.one
        while e:
            if e & 1:
                r = self.mul(r, a)
            a = self.mul(a, a)
            e >>= 1
        return r

    def is0(self, a):
        return a == self.zero

    def is_square(self, a):
        return self.is0(a) or self.pow(a, (self.q - 1) // 2) == self.one

    def sqrt(self, a):
        """some square root or None (Tonelli-Shanks in F_q)"""
        if self.is0(a):
            return self.zero
        if not self.is_square(a):
            return None
        q = self.q
        s, t = 0, q - 1
        while t % 2 == 0:
            s += 1
            t //= 2
        rng = random.Random(12345)
        while True:
            z = self.rand(rng)
            if not self.is0(z) and not self.is_square(z):
                break
        c = self.pow(z, t)
        x = self.pow(a, (t + 1) // 2)
        b = self.pow(a, t)
        m = s
        while b != self.one:
            i, b2 = 0, b
            while b2 != self.one:
                b2 = self.mul(b2, b2)
                i += 1
            w = c
            for _ in range(m - i - 1):
                w = self.mul(w, w)
            x = self.mul(x, w)
            c = self.mul(w, w)
            b = self.mul(b, c)
            m = i
        assert self.mul(x, x) == a
        return x

    def rand(self, rng):
        return rng.randrange(self.p) if self.deg == 1 else (rng.randrange(self.p), rng.randrange(self.p))

    def parity(self, a):
        for c in self.coords(a):
            if c != 0:
                return c & 1
        return 0

    # ---- polynomials: lists of elements, lowest degree first
    def ptrim(self, f):
        f = list(f)
        while f and self.is0(f[-1]):
            f.pop()
        return f

    def pmulmod(self, f, g, m):
        r = [self.zero] * (len(f) + len(g) - 1) if f and g else []
        for i, a in enumerate(f):
            if self.is0(a):
                continue
            for j, b in enumerate(g):
                r[i + j] = self.add(r[i + j], self.mul(a, b))
        return self.pmod(r, m)

    def pmod(self, f, m):
        f = self.ptrim(f)
        m = self.ptrim(m)
        if not m:
            return f
        li = self.inv(m[-1])
        while len(f) >= len(m):
            c = self.mul(f[-1], li)
            d = len(f) - len(m)
            for i, b in enumerate(m):
                f[d + i] = self.sub(f[d + i], self.mul(c, b))
            f = self.ptrim(f)
        return f

    def pgcd(self, f, g):
        f, g = self.ptrim(f), self.ptrim(g)
        while g:
            f, g = g, self.pmod(f, g)
        if f:
            li = self.inv(f[-1])
            f = [self.mul(c, li) for c in f]
        return f

    def ppowmod(self, f, e, m):
        r = [self.one]
        f = self.pmod(f, m)
        while e:
            if e & 1:
                r = self.pmulmod(r, f, m)
            f = self.pmulmod(f, f, m)
            e >>= 1
        return r

    def psub(self, f, g):
        n = max(len(f), len(g))
        f = list(f) + [self.zero] * (n - len(f))
        g = list(g) + [self.zero] * (n - len(g))
        return self.ptrim([self.sub(a, b) for a, b in zip(f, g)])

    def peval(self, f, x):
        r = self.zero
        for c in reversed(f):
            r = self.add(self.mul(r, x), c)
        return r

    def roots(self, f):
        """all roots of f in F_q (distinct)"""
        f = self.ptrim(f)
        if len(f) <= 1:
            return []
        out = []
        if self.is0(f[0]):
            out.append(self.zero)
            while f and self.is0(f[0]):
                f = f[1:]
            if len(f) <= 1:
                return out
        xq = self.ppowmod([self.zero, self.one], self.q, f)
        g = self.pgcd(self.psub(xq, [self.zero, self.one]), f)
        rng = random.Random(777)
        stack = [g]
        while stack:
            h = stack.pop()
            if len(h) <= 1:
                continue
            if len(h) == 2:
                out.append(self.neg(self.div(h[0], h[1])))
                continue
            while True:
                d = self.rand(rng)
                t = self.ppowmod([d, self.one], (self.q - 1) // 2, h)
                w = self.pgcd(self.psub(t, [self.one]), h)
                if 1 < len(w) < len(h):
                    break
            stack.append(w)
            quo = self.pdivexact(h, w)
            stack.append(quo)
        return out

    def pdivexact(self, f, g):
        f, g = self.ptrim(f), self.ptrim(g)
        q = [self.zero] * (len(f) - len(g) + 1)
        li = self.inv(g[-1])
        f = list(f)
        while len(f) >= len(g) and f:
            c = self.mul(f[-1], li)
            d = len(f) - len(g)
            q[d] = c
            for i, b in enumerate(g):
                f[d + i] = self.sub(f[d + i], self.mul(c, b))
            f = self.ptrim(f)
        assert not f
        return q


# ---------------------------------------------------------------- RFC 9380 on hashlib
def xmd_sha256(msg, dst, n):
    """expand_message_xmd, RFC 9380 5.3.1 (+5.3.3), SHA-256; None = abort"""
    H = lambda b: hashlib.sha256(b).digest()
    if len(dst) > 255:
        dst = H(b'H2C-OVERSIZE-DST-' + dst)
    ell = -(-n // 32)
    if ell > 255 or n > 65535:
        return None
    dstp = dst + bytes([len(dst)])
    b0 = H(bytes(64) + msg + n.to_bytes(2, 'big') + b'\x00' + dstp)
    bs = [H(b0 + b'\x01' + dstp)]
    for i in range(2, ell + 1):
        bs.append(H(bytes(x ^ y for x, y in zip(b0, bs[-1])) + bytes([i]) + dstp))
    return b''.join(bs)[:n] if ell > 0 else b''


def h2f_rfc(msg, dst, count, p, m, k):
    """hash_to_field, RFC 9380 5.2; returns list of coordinate lists or None"""
    L = -(-(p.bit_length() + k) // 8)
    ub = xmd_sha256(msg, dst, count * m * L)
    if ub is None:
        return None
    out = []
    for i in range(count):
        out.append([int.from_bytes(ub[L * (j + i * m):L * (j + i * m) + L], 'big') % p for j in range(m)])
    return out
