"""C14: results do not depend on the `parallel` feature or on the number of threads.
Case generator + property metadata.

Case layout (see coq/C14/Run.v):
  [cfg_id, T, rep] [p | p, b, r] [FftField constants | ] [small params] ([] | [offset]) data data
T = number of rayon threads the operation runs with; rep = repetition index (the same
(case, T) is run several times to surface schedule dependence).  The harness bin `c14` is
built with `--features parallel`; `extra` additionally builds the serial bin `c14s` from the
same source (default features) and requires identical output lines.
"""
import sys, os
sys.path.insert(0, '/verif/lib')

OPS = {
    'threads': 1, 'distribute': 2, 'evaluate': 3, 'batch_inv': 4, 'batch_inv1': 5,
    'fft': 6, 'ifft': 7, 'poly_mul': 8,
    'msm': 9, 'batch_mul': 10, 'normalize': 11, 'batch_check': 12, 'pairing': 13,
}
HARNESS_BIN = 'c14'
HARNESS_FEATURES = 'parallel'
SHARDS = 16
XCHECK = {'quick': 120, 'thorough': 400}

TS = [1, 2, 3, 4, 5, 6, 7, 8, 11, 15, 16, 17, 31, 64]

# cfg_id -> (name, p, multiplicative generator, small_subgroup_base, small_subgroup_power)
FIELDS = {
    0: ('bls12_381_Fr', 52435875175126190479447740508185965837690552500527637822603658699938581184513, 7, 3, 1),
    1: ('bn384_small_two_adicity_Fq', 5945877603251831796258517492029536515488649313567122628447476625319762940580461319088175968449723373773214087057409, 7, 3, 2),
    2: ('toyM3_10369', 10369, 13, 3, 3),
    3: ('toy12289', 12289, 11, 0, 0),
    4: ('toy65537', 65537, 3, 0, 0),
}
TOY = (2, 3, 4)


class Fld:
    def __init__(self, cid):
        self.cid = cid
        self.name, self.p, self.g, self.q, self.qa = FIELDS[cid]
        p = self.p
        t, s = p - 1, 0
        while t % 2 == 0:
            t //= 2
            s += 1
        self.s, self.t = s, t
        # the FftField constants, computed as ff-macros does (the C07 `consts` op compares this
        # derivation with the compiled crates)
        self.root = pow(self.g, t, p)
        self.large = pow(self.g, t // (self.q ** self.qa), p) if self.q else 0
        self.consts = [s, self.root, self.q, self.qa, self.large]

    def mixed_sizes(self, bound):
        out = []
        for t in range(self.qa + 1):
            for k in range(self.s + 1):
                n = (self.q ** t) << k
                if n <= bound:
                    out.append(n)
        return sorted(out)


FL = {cid: Fld(cid) for cid in FIELDS}

# bls12_381 G1 (test-curves): y^2 = x^3 + 4 over Fq, prime order r
BLS_P = 0x1a0111ea397fe69a4b1ba7b6434bacd764774b84f38512bf6730d2a0f6b0f6241eabfffeb153ffffb9feffffffffaaab
BLS_R = 0x73eda753299d7d483339d80809a1d80553bda402fffe5bfeffffffff00000001
BLS_B = 4
BLS_G = (0x17f1d3a73197d7942695638c4fa9ac0fc3688c4f9774b905a14e3a3f171bac586c55e83ff97a1aeffb3af00adb22c6bb,
         0x08b3f481e3aaa0f1a09e30ed741d8ae4fcf5e095d5d00af600db18cb2c04b3edd03cc744a2888ae40caa232946c5e7e1)
EC_CFG = 10


# --- affine arithmetic used only to CHOOSE INPUTS (points on the curve) ---
def ec_add(P, Q):
    p = BLS_P
    if P is None:
        return Q
    if Q is None:
        return P
    (x1, y1), (x2, y2) = P, Q
    if x1 == x2:
        if (y1 + y2) % p == 0:
            return None
        l = 3 * x1 * x1 * pow(2 * y1, -1, p) % p
    else:
        l = (y2 - y1) * pow(x2 - x1, -1, p) % p
    x3 = (l * l - x1 - x2) % p
    return (x3, (l * (x1 - x3) - y1) % p)


def ec_mul(k, P):
    R = None
    while k:
        if k & 1:
            R = ec_add(R, P)
        P = ec_add(P, P)
        k >>= 1
    return R


def ec_neg(P):
    return None if P is None else (P[0], (-P[1]) % BLS_P)


def flat(P):
    return [0, 0, 1] if P is None else [P[0], P[1], 0]


def subgroup_points(rng, n):
    """n points of the order-r subgroup (arithmetic progression from a random start)"""
    out = []
    P = ec_mul(rng.randrange(1, BLS_R), BLS_G)
    D = ec_mul(rng.randrange(1, 1 << 64), BLS_G)
    for _ in range(n):
        out.append(P)
        P = ec_add(P, D)
    return out


def curve_point_outside_subgroup(rng):
    p = BLS_P
    while True:
        x = rng.randrange(p)
        y2 = (x * x * x + BLS_B) % p
        y = pow(y2, (p + 1) // 4, p)
        if y * y % p == y2:
            # cofactor ~ 2^126: a random curve point is outside the subgroup (the model decides)
            return (x, y)


def fvec(rng, p, n, kind=None):
    k = rng.randrange(8) if kind is None else kind
    if n == 0:
        return [], 'empty'
    if k == 0:
        return [0] * n, 'zeros'
    if k == 1:
        v = [0] * n
        v[rng.randrange(n)] = rng.randrange(1, p)
        return v, 'unit'
    if k == 2:
        return [p - 1] * n, 'all_p-1'
    if k == 3:
        return [rng.choice([0, 1, p - 1]) for _ in range(n)], 'small_set'
    if k == 4:
        m = rng.randrange(n + 1)
        return [rng.randrange(p) for _ in range(m)] + [0] * (n - m), 'trailing_zeros'
    return [rng.randrange(p) for _ in range(n)], 'dense'


def near(vals, lo=0):
    s = set()
    for v in vals:
        for d in (-1, 0, 1):
            if v + d >= lo:
                s.add(v + d)
    return sorted(s)


# Special-case branches / thresholds of the anchored parallel code and the class that executes each:
#   distribute_powers: chunk = max(len/T, 1024) .......... 'distribute/len*' : len around 1024, 2048, 1024*T, T*1024+T,
#        single chunk (len <= 1024), last chunk shorter, len/T < 1024 <= len; also every coset fft/ifft ('offset_*')
#   internal_evaluate: chunk = max(len/T, 16) ............ 'evaluate/len*': len around 16, 16*T, 17*T, T > len;
#        evaluate: zero polynomial / point 0 shortcuts ... 'evaluate/zero_poly', 'evaluate/x=0'
#   batch_inversion_and_mul: chunk = max(len/T, 1) ....... 'batch_inv/len*': 0, 1, T-1, T, T+1, 10T+3; zeros inside
#        chunks, whole-zero chunks ('zeros', 'small_set'), coeff 0/1/random
#   roots_of_unity: log_size <= 7 serial; recursive ...... fft sizes 2^7 | 2^8 (top-level base case) | 2^9.. (split),
#        2^16 on toy65537 (two levels of recursion: 15 -> 8 + 7 -> 4 + 4)
#   apply_butterfly: len <= 1024 serial; gap > 1024 && num_chunks < T inner-parallel ... sizes 2^10, 2^11, 2^12, 2^13
#   io/oi_helper compaction (num_chunks >= 128) .......... sizes >= 2^8
#   degree-aware fft (len*4 <= size): cfg_chunks_mut duplication ... 'degree_aware'
#   best_fft: log_n <= log2_floor(T) -> serial ........... mixed sizes with two-adicity 0..12 against every T
#        (T = 3, 5, 7, 15, 17, 31: floor; T = 64 > two-adicity 0..6)
#   parallel_fft: cosets = 2^floor(log2 T), coset size 1.. , sub-FFT q-adic or pure radix-2 (q_adicity 0:
#        bitreverse branch) .............................. 'fft/mixed*' on bn384 Fq, toyM3, bls Fr via kind 1
#   ifft: size_inv scaling (offset 1) vs distribute_powers_and_mul_by_const ... 'subgroup' / 'offset_*'
#   poly_mul: zero operand shortcut; radix-2 and mixed General domains ... 'poly_mul/*'
#   msm: size < 32 -> c = 3 else ln+2; length mismatch -> Err(min) ... 'msm/len*' 0..300, 'msm/mismatch'
#   batch_mul: window 3 below 32 scalars ................. 'batch_mul/len*'
#   normalize_batch: identity (z = 0), z = 1 ............. 'normalize/*'
#   batch_check: par_bridge try_for_each ................. 'batch_check/valid', '/off_curve@i', '/not_in_subgroup@i'
#   multi_miller_loop: chunks of 4 pairs; identity filter  'pairing/n*' n = 0..9, zero scalars
def gen(rng, tier):
    thorough = tier != 'quick'
    reps = 3 if thorough else 2

    def emit(op, head, rest, cls, ts=TS, nrep=None):
        for T in ts:
            for rep in range(reps if nrep is None else nrep):
                yield op, [[head[0][0], T, rep]] + head[1:] + rest, cls

    def fhead(f, consts=False):
        return [[f.cid], [f.p], (f.consts if consts else [])]

    ehead = [[EC_CFG], [BLS_P, BLS_B, BLS_R], []]

    # ---------------- thread-count mechanism probe ----------------
    for c in emit('threads', ehead, [[], [], [], []], 'threads', nrep=1):
        yield c

    # ---------------- batch inversion ----------------
    for cid in (0, 2):
        f = FL[cid]
        for T in TS:
            lens = sorted({0, 1, 2, T - 1, T, T + 1, 2 * T - 1, 2 * T, 2 * T + 1, 10 * T + 3, rng.randrange(3 * T + 2)})
            for ln in lens:
                for kind in ([5, 3, 0] if ln else [5]):
                    v, vc = fvec(rng, f.p, ln, kind)
                    co = rng.choice([1, 0, f.p - 1, rng.randrange(f.p), rng.randrange(f.p)])
                    cls = 'batch_inv/%s/len%s/%s' % (f.name, 'T%+d' % (ln - T) if abs(ln - T) <= 1 else ('>T' if ln > T else '<T'), vc)
                    for c in emit('batch_inv', fhead(f), [[co], [], v], cls, ts=[T]):
                        yield c
                    if kind == 5:
                        for c in emit('batch_inv1', fhead(f), [[], [], v], cls, ts=[T], nrep=1):
                            yield c

    # ---------------- DensePolynomial::evaluate ----------------
    for cid in (0, 2):
        f = FL[cid]
        p = f.p
        for T in TS:
            lens = near([16, 16 * T, 17 * T, 32 * T + 5], 1) + [1, 2, T, rng.randrange(1, 40 * T)]
            if cid == 0 and T > 17:
                lens = near([16 * T], 1) + [17 * T, rng.randrange(1, 20 * T)]
            for ln in sorted(set(lens)):
                v = [rng.randrange(p) for _ in range(ln - 1)] + [rng.randrange(1, p)]
                x = rng.choice([rng.randrange(1, p), rng.randrange(1, p), 1, p - 1])
                cls = 'evaluate/%s/len%s' % (f.name, '<16T' if ln < 16 * T else ('=16T' if ln == 16 * T else '>16T'))
                for c in emit('evaluate', fhead(f), [[x], [], v], cls, ts=[T]):
                    yield c
            # shortcuts: zero polynomial, point zero, trailing zero coefficients (trimmed before chunking)
            v = [rng.randrange(p) for _ in range(16 * T + 1)]
            for c in emit('evaluate', fhead(f), [[0], [], v], 'evaluate/x=0', ts=[T], nrep=1):
                yield c
            for c in emit('evaluate', fhead(f), [[rng.randrange(p)], [], [0] * (T + 3)], 'evaluate/zero_poly', ts=[T], nrep=1):
                yield c
            for c in emit('evaluate', fhead(f), [[rng.randrange(1, p)], [], v[:16 * T - 1] + [0, 0, 0]], 'evaluate/trailing_zeros', ts=[T], nrep=1):
                yield c

    # ---------------- distribute_powers_and_mul_by_const ----------------
    for T in TS:
        f = FL[4] if T > 8 else FL[rng.choice([0, 4])]
        p = f.p
        lens = {0, 1, 1023, 1024, 1025, 2047, 2048, 2049, 1024 * T + T, rng.randrange(1024 * T + 2000)}
        if T <= 16 or thorough:
            lens |= set(near([1024 * T]))
        if not thorough and T > 16:
            lens = {1025, 1024 * T + 1, 2048 + T}
        for ln in sorted(lens):
            if f.cid == 0 and ln > 9000:
                f2 = FL[4]
            else:
                f2 = f
            v, vc = fvec(rng, f2.p, ln, 5)
            g = rng.choice([rng.randrange(2, f2.p), f2.g])
            co = rng.choice([1, rng.randrange(1, f2.p)])
            cls = 'distribute/%s/len%s' % (f2.name, '<=1024' if ln <= 1024 else ('<1024T' if ln < 1024 * T else '>=1024T'))
            for c in emit('distribute', fhead(f2), [[g, co], [], v], cls, ts=[T], nrep=(reps if ln < 20000 else 1)):
                yield c

    # ---------------- FFT / IFFT ----------------
    def offsets(f):
        return [([], 'subgroup'), ([f.g], 'offset_gen'), ([rng.randrange(2, f.p)], 'offset_rand'), ([1], 'offset1')]

    def fft_cases(f, n, kind, ts, offs, lens, tag):
        for off, oc in offs:
            for ln in lens:
                v, vc = fvec(rng, f.p, ln, rng.choice([5, 5, 5, 1, 3]))
                side = 'degree_aware' if (ln * 4 <= n and kind != 1) else 'in_order'
                for c in emit('fft', fhead(f, True), [[kind, n], off, v], 'fft/%s/%s/n=%d/%s/%s' % (tag, f.name, n, oc, side), ts=ts):
                    yield c
            v, vc = fvec(rng, f.p, n, 5)
            for c in emit('ifft', fhead(f, True), [[kind, n], off, v], 'ifft/%s/%s/n=%d/%s' % (tag, f.name, n, oc), ts=ts):
                yield c

    # radix-2: toy fields, every log size; thresholds 2^7 (roots), 2^8 (compaction), 2^10/2^11 (parallel butterflies)
    r2 = [(3, k) for k in (0, 1, 2, 6, 7, 8, 9, 10, 11, 12)] + [(4, k) for k in (8, 9, 11, 13)]
    for cid, k in r2:
        f = FL[cid]
        n = 1 << k
        # sizes >= 2^11 take the in-chunk parallel butterfly path (gap > 1024): thread counts that do not divide the gap
        # (6, 7, 10, 11, 14, 15) split the roots table and the butterflies by different roundings there
        ts = TS if k <= 10 else ([1, 2, 3, 6, 7, 8, 10, 11, 14, 15, 17, 64] if not thorough else TS + [10, 14, 24])
        offs = offsets(f)[:3] if k <= 9 else [offsets(f)[0], offsets(f)[rng.choice([1, 2])]]
        lens = sorted({n, n // 4, n // 4 + 1, rng.choice([1, n // 2, n - 1])})
        if k > 10:
            lens = [n, n // 4]
        for c in fft_cases(f, n, rng.choice([0, 2]), ts, offs, [l for l in lens if l >= 0], 'radix2'):
            yield c
    # two levels of roots_of_unity_recursive: 2^16
    # (thorough only: the model's bit-reversal gather is quadratic, 45 s per case at this size)
    if thorough:
        f = FL[4]
        n = 1 << 16
        v, _ = fvec(rng, f.p, n, 5)
        for c in emit('fft', fhead(f, True), [[0, n], [], v], 'fft/radix2/toy65537/n=65536/subgroup/in_order', ts=[1, 2, 5, 16, 17, 64], nrep=1):
            yield c
        for c in emit('ifft', fhead(f, True), [[0, n], [f.g], v], 'ifft/radix2/toy65537/n=65536/offset_gen', ts=[3, 4, 8, 31], nrep=1):
            yield c
    # bls12_381 Fr radix-2
    f = FL[0]
    for k in ([3, 8, 9, 11] if not thorough else [3, 7, 8, 9, 10, 11, 12, 13]):
        n = 1 << k
        ts = TS if k <= 9 else [2, 5, 16, 64]
        for c in fft_cases(f, n, 0, ts, [offsets(f)[0], offsets(f)[2]], [n, n // 4], 'radix2'):
            yield c

    # mixed radix (best_fft / parallel_fft): every two-adicity against every T
    def mixed_for(f, bound):
        return [n for n in f.mixed_sizes(bound)]
    fM = FL[2]
    for n in mixed_for(fM, 4000):
        if not thorough and n > 300 and rng.randrange(2):
            continue
        offs = [offsets(fM)[0], offsets(fM)[rng.choice([1, 2])]]
        lens = [n] if n > 64 else sorted({n, max(0, n - 1), n // 2})
        for c in fft_cases(fM, n, 1, TS, offs, lens, 'mixed'):
            yield c
    fB = FL[1]
    sizes = [1, 2, 3, 6, 9, 12, 18, 36, 3 << 5, 9 << 4, 1 << 7, 3 << 7, 9 << 7, 3 << 8, 1 << 9, 9 << 8] + ([3 << 10, 9 << 9, 1 << 12] if thorough else [3 << 10])
    for n in sizes:
        ts = TS if n <= 600 else [1, 2, 7, 16, 31, 64]
        offs = [offsets(fB)[0], offsets(fB)[rng.choice([1, 2])]] if n <= 600 else [offsets(fB)[rng.choice([0, 1])]]
        for c in fft_cases(fB, n, 1, ts, offs, [n], 'mixed'):
            yield c
    # bls12_381 Fr through the mixed-radix domain (q = 3, one factor) and General fallback on bn384 (size 3*2^12 > 2^12)
    for n in (3 << 4, 3 << 7, 1 << 8):
        for c in fft_cases(FL[0], n, 1, [1, 3, 4, 8, 17, 64], [offsets(FL[0])[0]], [n], 'mixed'):
            yield c

    # ---------------- polynomial multiplication ----------------
    for cid in (0, 1, 2, 3):
        f = FL[cid]
        tot = [1, 2, 3, 16, 17, 128, 129, 200, 257] + ([1025, 2049] if cid in (0, 3) else []) + ([130, 400, 3000] if cid == 2 else [])
        for n in tot:
            l1 = rng.randrange(1, n + 1)
            l2 = n + 1 - l1
            a = [rng.randrange(f.p) for _ in range(l1 - 1)] + [rng.randrange(1, f.p)]
            b = [rng.randrange(f.p) for _ in range(l2 - 1)] + [rng.randrange(1, f.p)]
            ts = TS if n <= 300 else [1, 3, 8, 17, 64]
            for c in emit('poly_mul', fhead(f, True), [[], [], a, b], 'poly_mul/%s/deg_sum=%d' % (f.name, n - 1), ts=ts, nrep=(reps if n <= 300 else 1)):
                yield c
        a = [rng.randrange(f.p) for _ in range(5)]
        for c in emit('poly_mul', fhead(f, True), [[], [], a, [0, 0]], 'poly_mul/zero_operand', ts=[1, 4], nrep=1):
            yield c
        for c in emit('poly_mul', fhead(f, True), [[], [], [], a], 'poly_mul/zero_operand', ts=[3], nrep=1):
            yield c

    # ---------------- group operations on bls12_381 G1 ----------------
    ets = [1, 2, 3, 5, 8, 17, 64]
    # MSM: lengths 0..300 (window 3 below 32 scalars; ln+2 above)
    for ln in [0, 1, 2, 3, 4, 7, 31, 32, 33, 64, 100, 200, 300] + ([rng.randrange(5, 300) for _ in range(6)] if thorough else []):
        pts = subgroup_points(rng, ln)
        big = ln > 40
        if ln >= 4:
            pts[1] = pts[0]                 # repeated base
            pts[2] = ec_neg(pts[0])         # opposite base (cancellation with equal scalars)
            pts[3] = None                   # identity base
        sc = [rng.randrange(1 << 64) if (big and i % 8) else rng.randrange(BLS_R) for i in range(ln)]
        if ln >= 4:
            sc[2] = sc[0]
        if ln >= 7:
            sc[4] = 0
            sc[5] = 1
            sc[6] = BLS_R - 1
        ts = ets if ln <= 40 else [1, 3, 8, 64]
        for c in emit('msm', ehead, [[], [], sum((flat(P) for P in pts), []), sc], 'msm/len%s' % ('<32' if ln < 32 else '>=32'), ts=ts, nrep=(reps if ln <= 40 else 1)):
            yield c
    pts = subgroup_points(rng, 5)
    for c in emit('msm', ehead, [[], [], sum((flat(P) for P in pts), []), [1, 2, 3]], 'msm/mismatch', ts=[1, 4], nrep=1):
        yield c
    for c in emit('msm', ehead, [[], [], sum((flat(P) for P in pts[:2]), []), [1, 2, 3, 4]], 'msm/mismatch', ts=[3], nrep=1):
        yield c
    # all scalars equal / all bases equal
    pts = subgroup_points(rng, 12)
    for c in emit('msm', ehead, [[], [], sum((flat(pts[0]) for _ in pts), []), [rng.randrange(BLS_R)] * 12], 'msm/same_base_same_scalar', ts=[2, 7], nrep=1):
        yield c

    # batch_mul
    for ln in [0, 1, 2, 31, 32, 33, 70] + ([150] if thorough else []):
        g = subgroup_points(rng, 1)[0] if ln % 2 else BLS_G
        sc = [rng.randrange(BLS_R) if (ln <= 33 or i % 5 == 0) else rng.randrange(1 << 32) for i in range(ln)]
        if ln >= 4:
            sc[0], sc[1], sc[2] = 0, 1, BLS_R - 1
        ts = ets if ln <= 2 else [1, 3, 8, 64]
        for c in emit('batch_mul', ehead, [[], [], flat(g), sc], 'batch_mul/len%s' % ('<32' if ln < 32 else '>=32'), ts=ts, nrep=1 if ln > 2 else reps):
            yield c

    # normalize_batch (Jacobian inputs; identity z = 0; z = 1)
    for T in TS:
        for ln in sorted({0, 1, T - 1, T, T + 1, 3 * T + 2}):
            pts = subgroup_points(rng, ln)
            jac = []
            for i, P in enumerate(pts):
                z = rng.choice([1, rng.randrange(1, BLS_P), rng.randrange(1, BLS_P), 0])
                if z == 0:
                    jac += [rng.choice([1, 0, P[0]]), rng.choice([1, P[1]]), 0]
                else:
                    jac += [P[0] * z * z % BLS_P, P[1] * z * z * z % BLS_P, z]
            for c in emit('normalize', ehead, [[], [], jac], 'normalize/len%s' % ('<T' if ln < T else '>=T'), ts=[T]):
                yield c

    # batch_check through Vec<G1Affine> deserialization
    for ln in [0, 1, 2, 5, 9, 20] + ([40] if thorough else []):
        pts = subgroup_points(rng, ln)
        if ln >= 5:
            pts[3] = None
        ts = [1, 2, 3, 8, 17, 64] if ln <= 9 else [1, 5, 64]
        for c in emit('batch_check', ehead, [[], [], sum((flat(P) for P in pts), [])], 'batch_check/valid', ts=ts, nrep=(reps if ln <= 9 else 1)):
            yield c
        if ln:
            for where in sorted({0, ln - 1, rng.randrange(ln)}):
                bad = list(pts)
                Q = bad[where] or BLS_G
                bad[where] = (Q[0], (Q[1] + 1) % BLS_P)
                for c in emit('batch_check', ehead, [[], [], sum((flat(P) for P in bad), [])], 'batch_check/off_curve@%s' % ('first' if where == 0 else ('last' if where == ln - 1 else 'mid')), ts=ts[:4], nrep=1):
                    yield c
                bad = list(pts)
                bad[where] = curve_point_outside_subgroup(rng)
                for c in emit('batch_check', ehead, [[], [], sum((flat(P) for P in bad), [])], 'batch_check/not_in_subgroup@%s' % ('first' if where == 0 else ('last' if where == ln - 1 else 'mid')), ts=ts[:4], nrep=1):
                    yield c
            if ln >= 5:
                bad = [curve_point_outside_subgroup(rng) if i % 2 else (P or BLS_G) for i, P in enumerate(pts)]
                for c in emit('batch_check', ehead, [[], [], sum((flat(P) for P in bad), [])], 'batch_check/many_invalid', ts=ts[:4], nrep=1):
                    yield c

    # multi_miller_loop / multi_pairing: 0..9 pairs (chunks of 4), exponent sum zero / non-zero, identity operands
    for n in range(0, 10):
        for variant in ('rand', 'cancel', 'with_zero'):
            if n == 0 and variant != 'rand':
                continue
            xs = [rng.randrange(1, BLS_R) for _ in range(n)]
            ys = [rng.randrange(1, BLS_R) for _ in range(n)]
            if variant == 'with_zero':
                xs[rng.randrange(n)] = 0
                ys[rng.randrange(n)] = 0
            if variant == 'cancel' and n >= 2:
                # last pair cancels the others: sum a_i b_i = 0 (mod r)
                s = sum(x * y for x, y in zip(xs[:-1], ys[:-1])) % BLS_R
                ys[-1] = (-s * pow(xs[-1], -1, BLS_R)) % BLS_R
            ts = [1, 2, 3, 8, 17] if (thorough or n in (0, 1, 4, 5, 8, 9)) else [2, 5]
            for c in emit('pairing', ehead, [[], [], xs, ys], 'pairing/n=%d/%s' % (n, variant), ts=ts, nrep=1 if not thorough else 2):
                yield c


def nontrivial(case, out):
    return case['op'] != 'threads' and any(len(a) > 0 for a in case['args'][5:])


def xcheck_ok(case):
    a = case['args']
    op = case['op']
    size = sum(len(x) for x in a[5:])
    if op in ('threads', 'pairing'):
        return True
    if op in ('msm', 'batch_mul', 'batch_check', 'normalize'):
        return False                      # 381-bit scalar multiplications: minutes in vm_compute
    if a[0][0] in TOY:
        if op in ('fft', 'ifft'):
            return a[3][1] <= 64
        return size <= 300
    return op in ('batch_inv', 'batch_inv1', 'evaluate') and size <= 12


def _run(binary, lines, env=None):
    import vcheck
    return vcheck.run_sharded(binary, lines, SHARDS, timeout=3000, env=env)


def extra(ctx, cases, lines, impl_out, model_out):
    """(1) the same cases on the SERIAL build (bin c14s, default features): every output line of
    the parallel build, for every T and every repetition, must equal the serial line;
    (2) the pairing cases again with C14_FULL=1 on both builds: raw multi_miller_loop output,
    final_exponentiation and multi_pairing values must be identical."""
    out = []
    hdir, tdir = ctx['harness_dir']()
    rc, o = ctx['sh']('cargo build --offline --bin c14s', cwd=hdir, timeout=3000,
                      env={'RUSTFLAGS': '--cfg arkworks_rs_algebra_verif'})
    if rc != 0:
        raise RuntimeError('serial harness (bin c14s) does not build: ' + o[-1500:])
    sbin = tdir + '/debug/c14s'
    if impl_out is None:
        return out
    ser = _run(sbin, lines)
    for k, c in enumerate(cases):
        if ser[k] != impl_out[k]:
            out.append(({'case': c, 'line': lines[k], 'impl': impl_out[k], 'serial_build': ser[k],
                         'model': model_out[k] if model_out else None,
                         'why': 'parallel build with T=%d differs from the serial build' % c['args'][0][1]}, 'serial'))
    pk = [k for k, c in enumerate(cases) if c['op'] == 'pairing']
    if pk:
        pl = [lines[k] for k in pk]
        full_par = _run(ctx['hbin_path'], pl, env={'C14_FULL': '1'})
        full_ser = _run(sbin, pl, env={'C14_FULL': '1'})
        for j, k in enumerate(pk):
            if full_par[j] != full_ser[j] or full_par[j] is None or len(full_par[j].split(' ')) != 5:
                out.append(({'case': cases[k], 'line': lines[k], 'impl': full_par[j], 'serial_build': full_ser[j],
                             'why': 'raw Miller loop / GT value differs between parallel and serial build'}, 'pairing_full'))
        ctx['notes'].append('extra: %d lines compared with the serial build (c14s); %d pairing cases compared on raw Fq12 values' % (len(lines), len(pk)))
    return out


RULE = ('cases from props/C14/prop.py; every base case is run for several thread counts T in {1,2,3,4,5,7,8,15,16,17,31,64} '
        'and repetitions; non-trivial = has operand data; distinct = distinct case lines (T and rep are part of the line)')
TRUSTED = [
    'thread count: the harness sizes the global rayon pool with RAYON_NUM_THREADS=T in a worker process per T '
    '(op `threads` checks the pool size through /proc/self/status); rayon itself (work stealing, memory model) is not modelled',
    'C07 model files (serial FFT building blocks) and C03/SWModel.v (Jacobian arithmetic), C01/Batch.v are imported unchanged',
    'GT identity test for pairings is derived from bilinearity + non-degeneracy (model: sum a_i b_i = 0 mod r); raw GT values '
    'are compared between the parallel and the serial build only',
]
ASSUMPTIONS = [
    'rayon executes each closure of a parallel iterator exactly once on its own disjoint chunk (schedules quantifier: not proved)',
]
HYPOTHESES = [
    'is_field F (field_theory of the dictionary operations, Leibniz equality) -- premise of every theorem',
    'fis0 F x = true <-> x = 0 (correct zero test) -- batch inversion theorem',
    'omega^m = 1 (the domain generator has order dividing the size) -- parallel_fft theorem',
    'mixed-radix theorems (non-partial): domain size n = 2^s q^t, q odd >= 3, gen^n = 1, gen^(n/2) = -1 when s >= 1, gen*gen_inv = 1 (ifft)',
]
