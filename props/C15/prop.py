"""C15: fixed-width big integers.  Case generator + property metadata."""
import sys
sys.path.insert(0, '/verif/lib')

OPS = {
    'add_with_carry': 1, 'sub_with_borrow': 2, 'mul2': 3, 'div2': 4, 'muln': 5, 'shl': 6,
    'divn': 7, 'shr': 8, 'mul': 9, 'mul_low': 10, 'mul_high': 11, 'cmp': 12, 'preds': 13,
    'num_bits': 14, 'get_bit': 15, 'from_bits_le': 16, 'from_bits_be': 17, 'to_bits_le': 18,
    'to_bits_be': 19, 'to_bytes_le': 20, 'to_bytes_be': 21, 'bits_be_nlz': 22, 'bits_le_ntz': 23,
    'from_str': 24, 'display': 25, 'try_from_biguint': 26, 'to_biguint': 27, 'bitops': 28,
    'from_u64': 29, 'find_wnaf': 30, 'find_naf': 31, 'find_relaxed_naf': 32,
    'signed_mod_reduction': 33, 'const_shr': 34, 'mod_4': 35, 'two_adic': 36,
    'div2_round_down': 37, 'const_num_bits': 38, 'montgomery_r': 39,
}

M64 = (1 << 64) - 1


def pre(ctx):
    _genlimb_regen(ctx)
    import xlate_arith
    try:
        t = xlate_arith.translate(ctx.get('REPO', '/repo') + '/ff/src/biginteger/arithmetic.rs')
    except xlate_arith.TranslateError as e:
        # DESIGN §4.2 E: not a violation by itself; the previous GenArith.v stays, and the
        # correspondence below still compares the real leaf functions through every chain
        ctx['notes'].append('T-leaf translator could not parse arithmetic.rs: %s (kept previous GenArith.v)' % e)
        return
    if xlate_arith.write_if_changed(ctx.get('COQ', '/verif/coq') + '/C15/GenArith.v', t):
        ctx['notes'].append('GenArith.v regenerated: leaf arithmetic source changed')


def limbs(v, n):
    return [(v >> (64 * i)) & M64 for i in range(n)]


def operand(rng, n):
    """one N-limb operand from the structured classes of DESIGN §6 C15; returns (value, class)"""
    W = 1 << (64 * n)
    k = rng.randrange(14)
    if k == 0:
        return 0, 'zero'
    if k == 1:
        return rng.choice([1, 2, 3]), 'small'
    if k == 2:
        e = rng.randrange(64 * n)
        return 1 << e, 'pow2'
    if k == 3:
        e = 64 * rng.randrange(1, n + 1)
        return ((1 << e) - rng.choice([0, 1, 2])) % W, 'limb_boundary-'
    if k == 4:
        e = 64 * rng.randrange(0, n)
        return ((1 << e) + rng.choice([0, 1, 2])) % W, 'limb_boundary+'
    if k == 5:
        return W - 1, 'all_ones'
    if k == 6:
        return W >> 1, 'top_bit'
    if k == 7:
        return sum((M64 if (i + rng.randrange(2)) % 2 else 0) << (64 * i) for i in range(n)), 'alt_limbs'
    if k == 8:
        return W - 1 - rng.randrange(1 << rng.randrange(1, 63)), 'near_top'
    if k == 9:
        v = 0
        for _ in range(rng.randrange(1, 4)):
            v |= 1 << rng.randrange(64 * n)
        return v, 'sparse'
    if k == 10:
        hi = rng.randrange(1, n + 1)
        return rng.getrandbits(64 * hi), 'dense_short'
    if k == 11:
        # runs of ones
        a, b = sorted([rng.randrange(64 * n + 1), rng.randrange(64 * n + 1)])
        return ((1 << b) - (1 << a)) % W, 'run_of_ones'
    return rng.getrandbits(64 * n), 'dense'


SHIFTS = lambda n: [0, 1, 2, 31, 32, 33, 62, 63, 64, 65, 127, 128, 129, 64 * n - 65, 64 * n - 64, 64 * n - 63,
                    64 * n - 1, 64 * n, 64 * n + 1, 64 * n + 64, (1 << 32) - 1, 1000]


# Special-case branches of the anchored Rust code and the generated class that executes each:
#   add/sub carry out of the top limb .......... 'complement' (a+b = W), 'ones_complement' (a+b = W-1), 'pred'
#   mul / mul_low early return on zero ......... operand class 'zero' (either side)
#   muln/<<, divn/>> saturation (n >= 64N) ..... SHIFTS: 64N, 64N+1, 64N+64, 2^32-1 ('shift_ge')
#   whole-limb loop only (n % 64 == 0) ......... SHIFTS: 64, 128, 64N-64 ('shift_limb'); sub-limb only: 1..63
#   both loops, 64-n spill ..................... SHIFTS: 65, 127, 129, 64N-63, 64N-1
#   num_bits: break on first non-zero limb ..... 'dense_short', 'small', 'zero' (all limbs zero: no break)
#   get_bit: i >= 64N .......................... indices 64N, 64N+1
#   from_bits: more than 64N bits (dropped) .... class 'len>'; partial last chunk: lengths 1, 63, 65
#   FromStr: '+', '++', '_', leading '_', '-', empty, bad char, overflow by one -> see from_str stream
#   find_wnaf: w outside 2..63 -> None ......... '/bad_w'; z >= 0 and z < 0 branches: dense operands
#   find_wnaf/find_naf carry out of `+ |z|` .... 'within_2^(w-1)_of_top', 'at_top_threshold', 'all_ones' (F12)
#   find_relaxed_naf: len < 3 guard ............ 'tiny' (0..7), 'zero' (F13); rewrite branch: 3, 11, ... dense
#   signed_mod_reduction: modulus 2^63 ......... w = 63 (F14 wrapping subtraction)
#   const_modulo!: carry out of mul2 ........... montgomery_r on 'top_bit', 'all_ones', 'near_top' moduli
#   divide_by_2_round_down odd/even ............ every operand class; two_adic: 'high_two_adicity'
def gen(rng, tier):
    scale = 1 if tier == 'quick' else 40
    Ns = list(range(1, 14))
    def N():
        return rng.choice(Ns)
    for _ in range(2200 * scale):
        n = N()
        a, ca = operand(rng, n)
        b, cb = operand(rng, n)
        r = rng.randrange(8)
        if r == 1:
            b = a
            cb = 'equal'
        elif r == 2:
            b = ((1 << (64 * n)) - a) % (1 << (64 * n)); cb = 'complement'      # a + b = W
        elif r == 3:
            b = ((1 << (64 * n)) - 1 - a); cb = 'ones_complement'               # a + b = W - 1
        elif r == 4 and a > 0:
            b = a - 1; cb = 'pred'
        op = rng.choice(['add_with_carry', 'sub_with_borrow', 'cmp', 'mul', 'mul_low', 'mul_high', 'bitops'])
        yield op, [[n], limbs(a, n), limbs(b, n)], ca + '/' + cb
    for _ in range(900 * scale):
        n = N()
        a, ca = operand(rng, n)
        op = rng.choice(['mul2', 'div2', 'preds', 'num_bits', 'to_bits_le', 'to_bits_be', 'to_bytes_le', 'to_bytes_be',
                         'bits_be_nlz', 'bits_le_ntz', 'display', 'to_biguint', 'const_shr', 'mod_4',
                         'div2_round_down', 'const_num_bits'])
        yield op, [[n], limbs(a, n)], ca
    for _ in range(900 * scale):
        n = N()
        a, ca = operand(rng, n)
        s = rng.choice(SHIFTS(n))
        if s < 0:
            s = 0
        if rng.randrange(4) == 0:
            s = rng.randrange(64 * n + 70)
        op = rng.choice(['muln', 'shl', 'divn', 'shr'])
        yield op, [[n], limbs(a, n), [s]], ca + '/shift%s' % ('_ge' if s >= 64 * n else ('_limb' if s % 64 == 0 else ''))
    for _ in range(300 * scale):
        n = N()
        a, ca = operand(rng, n)
        i = rng.choice([0, 1, 63, 64, 65, 64 * n - 1, 64 * n, 64 * n + 1, rng.randrange(64 * n + 10)])
        yield 'get_bit', [[n], limbs(a, n), [i]], ca
    for _ in range(300 * scale):
        n = N()
        ln = rng.choice([0, 1, 63, 64, 65, 64 * n - 1, 64 * n, 64 * n + 1, 64 * n + 64, rng.randrange(64 * n + 70)])
        bits = [rng.randrange(2) for _ in range(ln)]
        if rng.randrange(3) == 0:
            bits = [1] * ln
        yield rng.choice(['from_bits_le', 'from_bits_be']), [[n], bits], 'len%s' % ('>' if ln > 64 * n else '<=')
    for _ in range(300 * scale):
        n = N()
        W = 1 << (64 * n)
        k = rng.randrange(9)
        if k == 0:
            v, c = W, 'overflow_by_one'
        elif k == 1:
            v, c = W - 1, 'max'
        elif k == 2:
            v, c = W + rng.getrandbits(40), 'overflow'
        elif k == 3:
            v, c = 0, 'zero'
        else:
            v, c = operand(rng, n)
        if rng.randrange(2):
            yield 'try_from_biguint', [[n], [v]], c
        else:
            s = str(v)
            m = rng.randrange(10)
            if m == 0:
                s = '000' + s; c += '/leading_zeros'
            elif m == 1:
                s = '+' + s; c += '/plus'
            elif m == 2:
                s = ''; c = 'empty'
            elif m == 3:
                s = s + 'x'; c += '/bad_char'
            elif m == 4:
                s = '-' + s; c += '/minus'
            elif m == 5 and len(s) > 2:
                s = s[:1] + '_' + s[1:]; c += '/underscore'
            elif m == 6:
                s = '_' + s; c += '/leading_underscore'
            elif m == 7:
                s = '++' + s; c += '/plusplus'
            yield 'from_str', [[n], [ord(ch) for ch in s]], c
    for _ in range(60 * scale):
        n = N()
        yield 'from_u64', [[n], [rng.choice([0, 1, M64, rng.getrandbits(64)])]], 'u64'
    # recodings
    for _ in range(700 * scale):
        n = rng.choice([1, 1, 2, 2, 3, 4, 6, 13])
        W = 1 << (64 * n)
        a, ca = operand(rng, n)
        w = rng.choice([2, 2, 3, 4, 5, 6, 7, 8, 16, 31, 32, 33, 62, 63, rng.randrange(2, 64)])
        r = rng.randrange(6)
        if r == 0:
            a = W - 1 - rng.randrange(1 << (w - 1)); ca = 'within_2^(w-1)_of_top'
        elif r == 1:
            a = (W - (1 << (w - 1)) + rng.choice([-1, 0, 1])) % W; ca = 'at_top_threshold'
        if rng.randrange(12) == 0:
            w = rng.choice([0, 1, 64, 65]); ca += '/bad_w'
        yield 'find_wnaf', [[n], limbs(a, n), [w]], ca
    for _ in range(500 * scale):
        n = rng.choice([1, 1, 2, 3, 4, 6])
        a, ca = operand(rng, n)
        if rng.randrange(5) == 0:
            a = rng.choice([0, 1, 2, 3, 4, 5, 6, 7]); ca = 'tiny'
        yield rng.choice(['find_naf', 'find_relaxed_naf']), [[n], limbs(a, n)], ca
    for _ in range(150 * scale):
        w = rng.randrange(1, 64)
        m = 1 << w
        nn = rng.choice([0, 1, m - 1, m, m + 1, m // 2 - 1, m // 2, m // 2 + 1, M64, rng.getrandbits(64)]) & M64
        yield 'signed_mod_reduction', [[1], [nn, m]], 'w%d' % w
    # const helpers on odd values
    for _ in range(200 * scale):
        n = N()
        a, ca = operand(rng, n)
        a |= 1
        if a == 1:
            a = 3
        if rng.randrange(3) == 0:
            s = rng.randrange(1, 64 * n)
            a = (((a >> s) << s) + 1) % (1 << (64 * n)); ca = 'high_two_adicity'
            if a == 1:
                a = (1 << s) + 1 if s < 64 * n else 3
        yield 'two_adic', [[n], limbs(a, n)], ca
    for _ in range(40 * scale):
        n = rng.choice([1, 1, 2, 2, 3, 4, 6])
        a, ca = operand(rng, n)
        if a == 0:
            a = 1
        yield 'montgomery_r', [[n], limbs(a, n)], ca


def nontrivial(case, out):
    return any(any(x != 0 for x in a) for a in case['args'][1:])


RULE = ('structured operand classes (zero, small, powers of two, limb boundaries +-, all ones, top bit, alternating '
        'limbs, near the top of the range, sparse, runs of ones, short dense, dense) x correlated second operands '
        '(equal, complement, ones-complement, predecessor) x N = 1..13 x boundary shift amounts; non-trivial = some '
        'operand after the size argument is non-zero; distinct = distinct case lines')
XCHECK = {'quick': 240, 'thorough': 1600}
TRUSTED = ['T-leaf translator lib/xlate_arith.py (its output GenArith.v is re-proved against LeafSpecs.v every run)',
           'num-bigint (decimal parse/print, BigUint byte conversion) is modelled by arbitrary-precision Z, not verified']
ASSUMPTIONS = ['default features, x86-64, no asm feature (the portable branches of adc/sbb/mul2 are the ones modelled)',
               'loop `while n >= 64 { n -= 64 }` of the shifts is modelled by its closed form n / 64 iterations']

# T-limb translator (lib/xlate_limb.py): coq/GenLimb/GenLimb.v is regenerated from the working tree's source text before
# the Coq build; Props/GenLimb.v (generated per-N definitions = the list models + composed corollaries) is a strict obligation
STRICT_PROP_FILES = ['GenLimb', 'GenDerive']


def _genlimb_regen(ctx):
    import importlib.util, os
    sp = importlib.util.spec_from_file_location('genlimb_pre', os.path.join(ctx['ROOT'], 'props', 'GenLimb', 'pre.py'))
    m = importlib.util.module_from_spec(sp); sp.loader.exec_module(m)
    m.regen(ctx)
    # phase 2: the code #[derive(MontConfig)] GENERATES (expanded with rustc -Zunpretty=expanded from lib/expand_crate,
    # cached on a hash of ff-macros / ff sources) and the BigInt shifts -> coq/GenLimb/GenDerive.v, Props/GenDerive.v
    sp = importlib.util.spec_from_file_location('genlimb_pre_derive', os.path.join(ctx['ROOT'], 'props', 'GenLimb', 'pre_derive.py'))
    m2 = importlib.util.module_from_spec(sp); sp.loader.exec_module(m2)
    m2.regen(ctx)

