#!/bin/sh
# Regenerates coq/C16/Dump_<crate>.v and coq/C16/Facts_<crate>.v from the crates compiled
# from /repo (same function as prop.pre); run by setup.sh so that a fresh checkout builds.
cd /verif && exec python3 -c "import sys; sys.path.insert(0, '/verif/props/C16'); import prop; r, f, ch = prop.regenerate(build=True); print('C16 pre: %d records, %d facts, regenerated %s' % (len(r), len(f), ch))"
