"""C16: every shipped field and curve configuration is internally consistent.

Shape of this package (different from the others: the quantifier domain is finite):
  pre(ctx)   builds harness bin `c16`, runs `c16 dump` (every associated constant of every
             registered configuration, read through the public traits of the freshly
             compiled crates), writes props/C16/dump.json (regenerated, never trusted as
             truth) and regenerates coq/C16/Dump_<crate>.v (constants) and
             coq/C16/Facts_<crate>.v (one closed theorem per defining equation, proved by
             vm_compute over the checkers of coq/C16/ConfigChecks.v whose spec lemmas say
             what a `true` means).  Files are rewritten only when their content changes.
  extra(..)  evaluates the *same* equations with Python integers: a wrong constant is
             reported as a mismatch record naming crate / constant / equation / both sides.
  gen(..)    a small correspondence for the uniform interpreter run_C16: the const fns the
             constants are derived with (montgomery_r/r2, inv, two_adic_valuation/
             coefficient, const_num_bits, Fp::pow) against the generic model functions the
             checkers are made of.
"""
import sys, os, json, subprocess, hashlib
sys.path.insert(0, '/verif/lib')
sys.path.insert(0, '/verif/props/C16')

ROOT = '/verif'
PDIR = ROOT + '/props/C16'
CDIR = ROOT + '/coq/C16'
DUMP_JSON = PDIR + '/dump.json'

# paths; the engine may redirect them through ctx (mutation experiments on a scratch worktree: VERIF_REPO)
_CFG = {'hdir': ROOT + '/harness', 'tdir': ROOT + '/build/target', 'coq': ROOT + '/coq', 'repo': '/repo', 'dump_json': DUMP_JSON}


def configure(ctx):
    """take the path overrides of the engine: harness dir / cargo target dir, Coq tree, repository, dump.json"""
    if not ctx:
        return
    if 'harness_dir' in ctx:
        _CFG['hdir'], _CFG['tdir'] = ctx['harness_dir']()
    if ctx.get('COQ'):
        _CFG['coq'] = ctx['COQ']
    if ctx.get('REPO'):
        _CFG['repo'] = ctx['REPO'].rstrip('/')
    if ctx.get('ALT'):
        d = ctx['BUILD'] + '/alt'
        os.makedirs(d, exist_ok=True)
        _CFG['dump_json'] = d + '/C16_dump.json'
    else:
        _CFG['dump_json'] = DUMP_JSON

OPS = {'mont_rr2': 1, 'two_adic': 2, 'num_bits': 3, 'cfg_mont': 4, 'cfg_two_adic': 5, 'cfg_root': 6,
       'cfg_pow': 7, 'fact': 99}

M64 = (1 << 64) - 1

# crates whose Facts file is imported by coq/Props/C16.v (hand-written, committed): keep in
# sync with the registry in harness/src/bin/c16.rs
CRATES = ['t_bls12_381', 't_bn384', 't_mnt4_753', 't_mnt6_753', 't_secp256k1', 't_ed_on_bls12_381', 't_fp128',
          'bls12_381', 'bls12_377', 'bn254', 'secp256k1', 'ed25519', 'curve25519', 'pallas', 'vesta', 'grumpkin',
          'ed_on_bls12_381', 'ed_on_bls12_381_bandersnatch', 'ed_on_bls12_377', 'ed_on_bn254', 'ed_on_cp6_782',
          'ed_on_mnt4_298', 'ed_on_mnt4_753', 'mnt4_298', 'mnt6_298', 'mnt4_753', 'mnt6_753', 'bw6_761',
          'bw6_767', 'cp6_782', 'secp256r1', 'secp384r1', 'secq256k1']


# ------------------------------------------------------------------ dump
def run_dump(build=True):
    """build the harness bin and run `c16 dump`; returns list of records"""
    env = dict(os.environ)
    env['CARGO_NET_OFFLINE'] = 'true'
    env['RUSTFLAGS'] = '--cfg arkworks_rs_algebra_verif'
    if not os.path.exists(_CFG['hdir'] + '/Cargo.lock'):
        import shutil
        lock = _CFG['repo'] + '/Cargo.lock'
        shutil.copy(lock if os.path.exists(lock) else '/repo/Cargo.lock', _CFG['hdir'] + '/Cargo.lock')
    if build:
        p = subprocess.run('cargo build --offline --bin c16', shell=True, cwd=_CFG['hdir'], env=env,
                           stdout=subprocess.PIPE, stderr=subprocess.STDOUT, text=True, timeout=3000)
        if p.returncode != 0:
            raise RuntimeError('harness bin c16 does not build: ' + p.stdout[-1500:])
    p = subprocess.run([_CFG['tdir'] + '/debug/c16', 'dump'], stdout=subprocess.PIPE, stderr=subprocess.PIPE,
                       text=True, timeout=600)
    if p.returncode != 0:
        raise RuntimeError('c16 dump failed: ' + p.stderr[-1500:])
    recs = [json.loads(l) for l in p.stdout.splitlines() if l.strip()]
    # private constants that no public trait exposes: read from the source text (marked from_source)
    import srcscan
    for crate in ('bls12_381', 'bls12_377'):
        fq = [r for r in recs if r.get('crate') == crate and r.get('name') == 'fq' and r.get('kind') == 'prime']
        try:
            d = srcscan.private_psi(crate, fq[0]['MODULUS'], _CFG['repo'])
        except Exception as ex:
            NOTES.append('%s: P_POWER_ENDOMORPHISM coefficients could not be read from the source text (%s): no psi facts' % (crate, ex))
            continue
        rec = {'crate': crate, 'kind': 'psi', 'name': 'g2_psi', 'from_source': True}
        rec.update(d)
        recs.append(rec)
    # self-test hook (never set in normal runs): C16_TAMPER="crate/name/KEY" adds 1 to that dumped
    # integer, to demonstrate that a wrong constant is reported as a VIOLATION naming it
    t = os.environ.get('C16_TAMPER')
    if t:
        c, n, k = t.split('/')
        for r in recs:
            if r.get('crate') == c and r.get('name') == n and r.get('kind') != 'id':
                def bump(v):
                    return v + 1 if isinstance(v, int) else [bump(v[0])] + v[1:]
                r[k] = bump(r[k])
    return recs


def write_if_changed(path, text):
    if os.path.exists(path) and open(path).read() == text:
        return False
    with open(path, 'w') as f:
        f.write(text)
    return True


# ------------------------------------------------------------------ python field arithmetic
class Fld:
    """F_p[X]/(X^deg - beta), deg in {1,2,3}; elements are lists of deg ints (schoolbook, as Base/Field.v)"""
    def __init__(self, p, deg=1, beta=0):
        self.p, self.deg, self.beta = p, deg, beta % p

    def el(self, l):
        l = list(l) + [0] * self.deg
        return [x % self.p for x in l[:self.deg]]

    def zero(self): return [0] * self.deg
    def one(self): return self.el([1])
    def add(self, a, b): return [(x + y) % self.p for x, y in zip(a, b)]
    def sub(self, a, b): return [(x - y) % self.p for x, y in zip(a, b)]
    def neg(self, a): return [(-x) % self.p for x in a]

    def mul(self, a, b):
        p, n = self.p, self.beta
        if self.deg == 1:
            return [a[0] * b[0] % p]
        if self.deg == 2:
            return [(a[0] * b[0] + n * a[1] * b[1]) % p, (a[0] * b[1] + a[1] * b[0]) % p]
        return [(a[0] * b[0] + n * (a[1] * b[2] + a[2] * b[1])) % p,
                (a[0] * b[1] + a[1] * b[0] + n * a[2] * b[2]) % p,
                (a[0] * b[2] + a[1] * b[1] + a[2] * b[0]) % p]

    def inv(self, a):
        p, n = self.p, self.beta
        if all(x == 0 for x in a):
            return self.zero()
        if self.deg == 1:
            return [pow(a[0], -1, p)]
        if self.deg == 2:
            nrm = pow((a[0] * a[0] - n * a[1] * a[1]) % p, -1, p)
            return [a[0] * nrm % p, (-a[1]) * nrm % p]
        t0 = (a[0] * a[0] - n * a[1] * a[2]) % p
        t1 = (n * a[2] * a[2] - a[0] * a[1]) % p
        t2 = (a[1] * a[1] - a[0] * a[2]) % p
        d = pow((a[0] * t0 + n * (a[2] * t1 + a[1] * t2)) % p, -1, p)
        return [t0 * d % p, t1 * d % p, t2 * d % p]

    def pow(self, a, e):
        assert e >= 0
        if self.deg == 1:
            return [pow(a[0], e, self.p)]
        r, b = self.one(), a
        while e:
            if e & 1:
                r = self.mul(r, b)
            b = self.mul(b, b)
            e >>= 1
        return r

    # polynomials = coefficient lists, lowest degree first (mirrors C13/Poly.v)
    def padd(self, f, g):
        n = max(len(f), len(g))
        z = self.zero()
        return [self.add(f[i] if i < len(f) else z, g[i] if i < len(g) else z) for i in range(n)]

    def pscale(self, c, f):
        return [self.mul(c, a) for a in f]

    def pmul(self, f, g):
        if not f or not g:
            return []
        out = [self.zero() for _ in range(len(f) + len(g) - 1)]
        for i, a in enumerate(f):
            for j, b in enumerate(g):
                out[i + j] = self.add(out[i + j], self.mul(a, b))
        return out

    def ptrim(self, f):
        f = list(f)
        while f and f[-1] == self.zero():
            f.pop()
        return f

    # affine short Weierstrass law, None = O (mirrors sw_add of ConfigChecks.v)
    def sw_add(self, a, P, Q):
        if P is None: return Q
        if Q is None: return P
        (x1, y1), (x2, y2) = P, Q
        if x1 == x2:
            if self.add(y1, y2) == self.zero():
                return None
            x1s = self.mul(x1, x1)
            l = self.mul(self.add(self.add(self.add(x1s, x1s), x1s), a), self.inv(self.add(y1, y1)))
        else:
            l = self.mul(self.sub(y2, y1), self.inv(self.sub(x2, x1)))
        x3 = self.sub(self.sub(self.mul(l, l), x1), x2)
        return (x3, self.sub(self.mul(l, self.sub(x1, x3)), y1))

    def sw_mul(self, a, k, P):
        assert k > 0
        R = None
        for bit in bin(k)[2:]:
            R = self.sw_add(a, R, R)
            if bit == '1':
                R = self.sw_add(a, R, P)
        return R

    def te_add(self, a, d, P, Q):
        (x1, y1), (x2, y2) = P, Q
        m = self.mul
        t = m(d, m(m(x1, x2), m(y1, y2)))
        return (m(self.add(m(x1, y2), m(y1, x2)), self.inv(self.add(self.one(), t))),
                m(self.sub(m(y1, y2), m(a, m(x1, x2))), self.inv(self.sub(self.one(), t))))

    def te_mul(self, a, d, k, P):
        assert k > 0
        R = (self.zero(), self.one())
        for bit in bin(k)[2:]:
            R = self.te_add(a, d, R, R)
            if bit == '1':
                R = self.te_add(a, d, R, P)
        return R


class Tw:
    """generic tower level: prime field (k = 1) or degree-k extension (k in {2,3}) of another Tw by X^k - nr;
    elements are ints (prime level) or k-tuples of base elements; mirrors QuadOps / CubicOps of Base/Field.v"""
    def __init__(self, p=None, base=None, k=1, nr=None):
        self.base, self.k = base, k
        self.p = p if base is None else base.p
        self.deg = 1 if base is None else k * base.deg
        self.nr = None if base is None else base.el(nr)

    def el(self, l):
        l = list(l)
        if self.base is None:
            return (l[0] if l else 0) % self.p
        d = self.base.deg
        return tuple(self.base.el(l[i * d:(i + 1) * d]) for i in range(self.k))

    def coords(self, a):
        if self.base is None:
            return [a]
        return [c for x in a for c in self.base.coords(x)]

    def zero(self): return self.el([0])
    def one(self): return self.el([1])

    def add(self, a, b):
        if self.base is None:
            return (a + b) % self.p
        return tuple(self.base.add(x, y) for x, y in zip(a, b))

    def mul(self, a, b):
        B = self.base
        if B is None:
            return a * b % self.p
        m, ad, n = B.mul, B.add, self.nr
        if self.k == 2:
            return (ad(m(a[0], b[0]), m(n, m(a[1], b[1]))), ad(m(a[0], b[1]), m(a[1], b[0])))
        return (ad(m(a[0], b[0]), m(n, ad(m(a[1], b[2]), m(a[2], b[1])))),
                ad(ad(m(a[0], b[1]), m(a[1], b[0])), m(n, m(a[2], b[2]))),
                ad(ad(m(a[0], b[2]), m(a[1], b[1])), m(a[2], b[0])))

    def pow(self, a, e):
        assert e >= 0
        r, b = self.one(), a
        while e:
            if e & 1:
                r = self.mul(r, b)
            b = self.mul(b, b)
            e >>= 1
        return r


# ------------------------------------------------------------------ facts
class Fact:
    """one defining equation: `coq` is a boolean Gallina term (over Dump_<crate> names) that must
    vm_compute to true; `ev()` returns the list of (sub-equation, lhs, rhs) it consists of"""
    def __init__(self, crate, cfg, const, eq, coq, ev):
        self.crate, self.cfg, self.const, self.eq, self.coq, self.ev = crate, cfg, const, eq, coq, ev
        self.name = 'fact_%s_%s' % (cfg, eq)


def zl(l):
    return '[' + '; '.join(zc(x) for x in l) + ']'


def zc(v):
    return str(v) if v >= 0 else '(%d)' % v


def zll(ll):
    return '[' + '; '.join(zl(l) for l in ll) + ']'


def two_adic(n):
    s = 0
    while n % 2 == 0 and n:
        n //= 2
        s += 1
    return s, n


def naf_le(l):
    return sum(d << i for i, d in enumerate(l))


NOTES = []
_STATE = {}

# Facts that FAIL on the current /repo tree (confirmed defects, see NOTES.md "Defects found").  They are
# excluded from the generated Coq facts and from the Python evaluation until the coordinator decides
# between a fix: commit and a known-findings entry; each is listed in the evidence notes.
DEFECTS = {}   # the four defects found while building this package were repaired by fix: commits in /repo
               # (aa57212, d721096, b8af228, 80c3297); nothing is excluded any more


def defect_of(f):
    for key in ((f.crate, f.cfg, f.eq), ('*', '*', f.eq)):
        if key in DEFECTS:
            return DEFECTS[key]
    return None


def build(recs):
    """returns (defs, facts, uncovered): defs[crate] = list of (coq_name, coq_type, coq_term)"""
    by = {}
    ids = {}
    for r in recs:
        if r['kind'] == 'id':
            ids[(r['crate'], r['name'])] = r['id']
        else:
            by[(r['crate'], r['name'])] = r
    defs = {}
    facts = []
    notes = []

    def D(crate, name, ty, term):
        defs.setdefault(crate, []).append((name, ty, term))

    def F(crate, cfg, const, eq, coq, ev):
        facts.append(Fact(crate, cfg, const, eq, coq, ev))

    def fld_of(crate, base):
        """(python field, coq big dictionary term) of the tower level named `base` in `crate`"""
        b = by[(crate, base)]
        if b['kind'] == 'prime':
            return Fld(b['MODULUS']), '(B1 %s_MODULUS)' % base
        pb = by[(crate, b['base'])]
        if b['kind'] == 'fp2':
            return Fld(pb['MODULUS'], 2, b['NONRESIDUE'][0]), '(B2 %s_MODULUS %s_BETA)' % (b['base'], base)
        if b['kind'] == 'fp3':
            return Fld(pb['MODULUS'], 3, b['NONRESIDUE'][0]), '(B3 %s_MODULUS %s_BETA)' % (b['base'], base)
        raise KeyError(base)

    def tower_of(crate, name):
        """(generic python tower, coq dictionary term) of ANY registered level (prime, Fp2, Fp3, Fp4, Fp6, Fp12)"""
        b = by[(crate, name)]
        if b['kind'] == 'prime':
            return Tw(p=b['MODULUS']), '(B1 %s_MODULUS)' % name
        bt, bc = tower_of(crate, b['base'])
        k = 3 if b['kind'] in ('fp3', 'fp6_3over2') else 2
        return Tw(base=bt, k=k, nr=b['NONRESIDUE']), '(%s %s %s_NONRESIDUE)' % ('BC' if k == 3 else 'BQ', bc, name)

    for r in recs:
        k, c, n = r['kind'], r['crate'], r['name']
        if k == 'id':
            continue
        if k == 'prime':
            prime_facts(r, D, F)
        elif k in ('fp2', 'fp3', 'fp4', 'fp6_2over3', 'fp6_3over2', 'fp12'):
            tower_facts(r, by, D, F, fld_of)
            if 'FFT_GENERATOR' in r:
                fft_ext_facts(r, by, D, F, tower_of)
        elif k == 'sw':
            sw_facts(r, by, D, F, fld_of)
        elif k == 'te':
            te_facts(r, by, D, F, fld_of)
        elif k == 'glv':
            glv_facts(r, by, D, F, fld_of)
        elif k in ('bls12', 'bn', 'bw6', 'mnt4', 'mnt6', 'cp6'):
            pairing_facts(r, by, D, F, fld_of)
        elif k in ('swu', 'wb', 'elligator2', 'psi', 'sw_te'):
            map_facts(r, by, D, F, fld_of)
    # split off the facts that are known to fail (DEFECTS); only those that really fail are dropped
    kept, dropped = [], []
    for f in facts:
        d = defect_of(f)
        if d is None:
            kept.append(f)
            continue
        try:
            bad = [w for (w, l, rr) in f.ev() if l != rr]
        except Exception as ex:
            bad = [repr(ex)]
        if bad:
            dropped.append('%s %s/%s.%s/%s (%s)' % (d, f.crate, f.cfg, f.const, f.eq, bad[0][:60]))
        else:
            kept.append(f)         # holds here (e.g. after a fix): checked like every other fact
    _STATE['dropped'] = dropped
    return defs, kept, ids, by


def eqs_ok(eqs):
    return all(l == rr for (_, l, rr) in eqs)


def prime_facts(r, D, F):
    c, n = r['crate'], r['name']
    p, N = r['MODULUS'], r['N']
    g, s, t = r['GENERATOR'], r['TWO_ADICITY'], r['TRACE']
    for key in ('MODULUS', 'R', 'R2', 'INV', 'GENERATOR', 'TWO_ADICITY', 'TWO_ADIC_ROOT_OF_UNITY', 'TRACE',
                'TRACE_MINUS_ONE_DIV_TWO', 'MODULUS_MINUS_ONE_DIV_TWO', 'MODULUS_BIT_SIZE', 'N', 'ONE_RAW',
                'GENERATOR_RAW', 'MODULUS_PF', 'GENERATOR_CFG', 'TWO_ADIC_ROOT_OF_UNITY_CFG'):
        D(c, '%s_%s' % (n, key), 'Z', zc(r[key]))
    D(c, n + '_R_LIMBS', 'list Z', zl(r['R_LIMBS']))
    D(c, n + '_R2_LIMBS', 'list Z', zl(r['R2_LIMBS']))
    opt = lambda v: [] if v is None else [v]
    D(c, n + '_MODULUS_PLUS_ONE_DIV_FOUR', 'list Z', zl(opt(r['MODULUS_PLUS_ONE_DIV_FOUR'])))
    B = lambda b: 'true' if b else 'false'
    nm = lambda key: '%s_%s' % (n, key)

    F(c, n, 'R,R2,INV', 'mont',
      'mont_consts_ok %s %s %s %s %s' % (nm('MODULUS'), nm('N'), nm('R'), nm('R2'), nm('INV')),
      lambda: [('modulus odd and > 1', (p > 1, p % 2), (True, 1)),
               ('N minimal: 2^(64(N-1)) <= p < 2^(64N)', (1 << (64 * (N - 1))) <= p < (1 << (64 * N)), True),
               ('R = 2^(64N) mod p', r['R'], (1 << (64 * N)) % p),
               ('R2 = R*R mod p', r['R2'], r['R'] * r['R'] % p),
               ('INV*p mod 2^64 = 2^64-1', (r['INV'] * p) & M64 if 0 <= r['INV'] <= M64 else None, M64)])
    F(c, n, 'R,R2 limbs', 'limbs',
      '(val_limbs %s =? %s) && (val_limbs %s =? %s) && limbs_wf %s %s && limbs_wf %s %s' % (
          nm('R_LIMBS'), nm('R'), nm('R2_LIMBS'), nm('R2'), nm('N'), nm('R_LIMBS'), nm('N'), nm('R2_LIMBS')),
      lambda: [('R limbs value', naf64(r['R_LIMBS']), r['R']), ('R2 limbs value', naf64(r['R2_LIMBS']), r['R2']),
               ('limb count/range', (len(r['R_LIMBS']), len(r['R2_LIMBS']),
                                     all(0 <= x <= M64 for x in r['R_LIMBS'] + r['R2_LIMBS'])), (N, N, True))])
    F(c, n, 'ONE,GENERATOR (Montgomery form)', 'montform',
      'mont_form_ok %s %s 1 %s && mont_form_ok %s %s %s %s' % (nm('MODULUS'), nm('R'), nm('ONE_RAW'), nm('MODULUS'),
                                                                 nm('R'), nm('GENERATOR'), nm('GENERATOR_RAW')),
      lambda: [('ONE raw = R', r['ONE_RAW'], r['R'] % p), ('GENERATOR raw = g*R mod p', r['GENERATOR_RAW'], g * r['R'] % p)])
    F(c, n, 'trait forwarding', 'fwd',
      '(%s =? %s) && (%s =? %s) && (%s =? %s)' % (nm('MODULUS_PF'), nm('MODULUS'), nm('GENERATOR_CFG'), nm('GENERATOR'),
                                                   nm('TWO_ADIC_ROOT_OF_UNITY_CFG'), nm('TWO_ADIC_ROOT_OF_UNITY')),
      lambda: [('PrimeField::MODULUS = MontConfig::MODULUS', r['MODULUS_PF'], p),
               ('FftField::GENERATOR = MontConfig::GENERATOR', r['GENERATOR_CFG'], g),
               ('FftField::ROOT = MontConfig::ROOT', r['TWO_ADIC_ROOT_OF_UNITY_CFG'], r['TWO_ADIC_ROOT_OF_UNITY'])])
    F(c, n, 'MODULUS_BIT_SIZE', 'bits', 'bits_ok %s %s' % (nm('MODULUS'), nm('MODULUS_BIT_SIZE')),
      lambda: [('MODULUS_BIT_SIZE = bit length of p', r['MODULUS_BIT_SIZE'], p.bit_length())])
    F(c, n, 'TWO_ADICITY,TRACE,TRACE_MINUS_ONE_DIV_TWO,MODULUS_MINUS_ONE_DIV_TWO', 'two_adic',
      'two_adic_ok %s %s %s %s %s' % (nm('MODULUS'), nm('TWO_ADICITY'), nm('TRACE'), nm('TRACE_MINUS_ONE_DIV_TWO'),
                                       nm('MODULUS_MINUS_ONE_DIV_TWO')),
      lambda: [('p-1 = 2^s * t, t odd, s>0', (p - 1, t % 2, s > 0), ((1 << s) * t, 1, True)),
               ('TRACE_MINUS_ONE_DIV_TWO = (t-1)/2', r['TRACE_MINUS_ONE_DIV_TWO'], (t - 1) // 2),
               ('MODULUS_MINUS_ONE_DIV_TWO = (p-1)/2', r['MODULUS_MINUS_ONE_DIV_TWO'], (p - 1) // 2)])
    F(c, n, 'GENERATOR', 'gen_nonresidue', 'gen_nonresidue_ok %s %s' % (nm('MODULUS'), nm('GENERATOR')),
      lambda: [('g^((p-1)/2) = -1 (quadratic non-residue)', pow(g, (p - 1) // 2, p), p - 1)])
    root = r['TWO_ADIC_ROOT_OF_UNITY']
    F(c, n, 'TWO_ADIC_ROOT_OF_UNITY', 'root',
      'two_adic_root_ok %s %s %s %s %s' % (nm('MODULUS'), nm('GENERATOR'), nm('TWO_ADICITY'), nm('TRACE'),
                                            nm('TWO_ADIC_ROOT_OF_UNITY')),
      lambda: [('root = g^t', root, pow(g, t, p)), ('root^(2^s) = 1', pow(root, 1 << s, p), 1),
               ('root^(2^(s-1)) = -1 (order exactly 2^s)', pow(root, 1 << max(s - 1, 0), p), p - 1)])
    m4 = r['MODULUS_PLUS_ONE_DIV_FOUR']
    F(c, n, 'MODULUS_PLUS_ONE_DIV_FOUR', 'p1d4',
      'plus_one_div_four_ok %s %s' % (nm('MODULUS'), nm('MODULUS_PLUS_ONE_DIV_FOUR')),
      lambda: [('(p+1)/4 present iff p = 3 mod 4', m4, (p + 1) // 4 if p % 4 == 3 else None)])
    spare = p < (1 << (64 * N - 1))
    F(c, n, 'MODULUS_HAS_SPARE_BIT,CAN_USE_NO_CARRY_MUL_OPT', 'flags',
      'flags_ok %s %s %s %s' % (nm('MODULUS'), nm('N'), B(r['MODULUS_HAS_SPARE_BIT']), B(r['CAN_USE_NO_CARRY_MUL_OPT'])),
      lambda: [('MODULUS_HAS_SPARE_BIT = (top bit of the top limb is 0)', r['MODULUS_HAS_SPARE_BIT'], spare),
               ('CAN_USE_NO_CARRY_MUL_OPT = spare bit and not all remaining bits 1', r['CAN_USE_NO_CARRY_MUL_OPT'],
                spare and p != (1 << (64 * N - 1)) - 1)])
    F(c, n, 'CAN_USE_NO_CARRY_SQUARE_OPT', 'flag_square',
      'flag_square_ok %s %s %s' % (nm('MODULUS'), nm('N'), B(r['CAN_USE_NO_CARRY_SQUARE_OPT'])),
      lambda: [('CAN_USE_NO_CARRY_SQUARE_OPT = (MODULUS[N-1] < u64::MAX >> 2) and not all remaining bits 1 (as documented)',
                r['CAN_USE_NO_CARRY_SQUARE_OPT'], p < (1 << (64 * N - 2)) and p != (1 << (64 * N - 2)) - 1)])
    sk = r['SQRT_KIND']
    if sk == 'tonelli_shanks':
        sv = [r['SQRT_TWO_ADICITY'], r['SQRT_QNR_TO_TRACE'][0], r['SQRT_TRACE_MINUS_ONE_DIV_TWO']]
    elif sk == 'case3mod4':
        sv = [r['SQRT_MODULUS_PLUS_ONE_DIV_FOUR']]
    else:
        sv = []
    kcode = {'tonelli_shanks': 1, 'case3mod4': 2}.get(sk, 0)
    D(c, nm('SQRT_KIND'), 'Z', zc(kcode))
    D(c, nm('SQRT_PRECOMP'), 'list Z', zl(sv))

    def sqrt_ev():
        if p % 4 == 3:
            return [('p = 3 mod 4: SQRT_PRECOMP = Case3Mod4 { (p+1)/4 }', (sk, sv), ('case3mod4', [(p + 1) // 4]))]
        out = [('p != 3 mod 4: SQRT_PRECOMP = TonelliShanks', sk, 'tonelli_shanks')]
        if sk == 'tonelli_shanks':
            ss, qq, tm = sv
            out += [('p-1 = 2^two_adicity * (2*trace_minus_one_div_two + 1)', p - 1, (1 << ss) * (2 * tm + 1)),
                    ('two_adicity, trace_minus_one_div_two = TWO_ADICITY, TRACE_MINUS_ONE_DIV_TWO', (ss, tm), (s, r['TRACE_MINUS_ONE_DIV_TWO'])),
                    ('quadratic_nonresidue_to_trace = GENERATOR^trace', qq, pow(g, 2 * tm + 1, p)),
                    ('quadratic_nonresidue_to_trace = TWO_ADIC_ROOT_OF_UNITY', qq, root),
                    ('quadratic_nonresidue_to_trace^(2^(s-1)) = -1', pow(qq, 1 << max(ss - 1, 0), p), p - 1)]
        return out
    F(c, n, 'SQRT_PRECOMP', 'sqrt_precomp',
      'sqrt_precomp_ok %s %s %s %s && lists_eqb %s [%s; %s; %s]' % (
          nm('MODULUS'), nm('GENERATOR'), nm('SQRT_KIND'), nm('SQRT_PRECOMP'), nm('SQRT_PRECOMP'),
          nm('TWO_ADICITY'), nm('TWO_ADIC_ROOT_OF_UNITY'), nm('TRACE_MINUS_ONE_DIV_TWO')) if sk == 'tonelli_shanks' else
      'sqrt_precomp_ok %s %s %s %s' % (nm('MODULUS'), nm('GENERATOR'), nm('SQRT_KIND'), nm('SQRT_PRECOMP')), sqrt_ev)

    b, kk, w = r['SMALL_SUBGROUP_BASE'], r['SMALL_SUBGROUP_BASE_ADICITY'], r['LARGE_SUBGROUP_ROOT_OF_UNITY']
    if b is None and kk is None and w is None:
        pass
    elif b is None or kk is None or w is None:
        F(c, n, 'SMALL_SUBGROUP_*', 'large_subgroup', 'false',
          lambda: [('SMALL_SUBGROUP_BASE, _ADICITY and LARGE_SUBGROUP_ROOT_OF_UNITY all present or all absent',
                    (b is None, kk is None, w is None), 'all equal')])
    else:
        D(c, nm('SMALL_SUBGROUP_BASE'), 'Z', zc(b))
        D(c, nm('SMALL_SUBGROUP_BASE_ADICITY'), 'Z', zc(kk))
        D(c, nm('LARGE_SUBGROUP_ROOT_OF_UNITY'), 'Z', zc(w))
        nn = (1 << s) * b ** kk
        F(c, n, 'LARGE_SUBGROUP_ROOT_OF_UNITY', 'large_subgroup',
          'large_subgroup_ok %s %s %s %s %s %s' % (nm('MODULUS'), nm('GENERATOR'), nm('TWO_ADICITY'),
                                                    nm('SMALL_SUBGROUP_BASE'), nm('SMALL_SUBGROUP_BASE_ADICITY'),
                                                    nm('LARGE_SUBGROUP_ROOT_OF_UNITY')),
          lambda: [('2^s*b^k divides p-1, b>1, k>0', ((p - 1) % nn, b > 1, kk > 0), (0, True, True)),
                   ('w = g^((p-1)/(2^s b^k))', w, pow(g, (p - 1) // nn, p)),
                   ('w^(n/2) != 1', pow(w, nn // 2, p) != 1, True), ('w^(n/b) != 1', pow(w, nn // b, p) != 1, True)])


def naf64(l):
    return sum(x << (64 * i) for i, x in enumerate(l))


def tower_facts(r, by, D, F, fld_of):
    c, n, k = r['crate'], r['name'], r['kind']
    p = r['P']
    nm = lambda key: '%s_%s' % (n, key)
    nr = r['NONRESIDUE']
    c1 = r['FROBENIUS_COEFF_C1']
    D(c, nm('NONRESIDUE'), 'list Z', zl(nr))
    D(c, nm('FROB_C1'), 'list (list Z)', zll(c1))
    if 'FROBENIUS_COEFF_C2' in r:
        D(c, nm('FROB_C2'), 'list (list Z)', zll(r['FROBENIUS_COEFF_C2']))
    base = r['base']
    # the prime field at the bottom
    b = by[(c, base)]
    chain = [b]
    while chain[-1]['kind'] != 'prime':
        chain.append(by[(c, chain[-1]['base'])])
    pn = chain[-1]['name']
    deg = r['DEGREE']
    D(c, nm('DEGREE'), 'Z', zc(deg))

    def frob(const, eqn, fld, fcoq, beta, betacoq, kdiv, mult, tbl, tblname):
        def ev():
            out = [('table length = degree over the prime field', len(tbl), deg)]
            for i, e in enumerate(tbl):
                if (p ** i - 1) % kdiv != 0:
                    out.append(('%d divides p^%d-1' % (kdiv, i), (p ** i - 1) % kdiv, 0))
                    continue
                out.append(('%s[%d] = beta^(%d*(p^%d-1)/%d)' % (const, i, mult, i, kdiv), fld.el(e),
                            fld.pow(fld.el(beta), mult * ((p ** i - 1) // kdiv))))
            return out
        F(c, n, const, eqn, '(Z.of_nat (length %s) =? %s) && frob_ok %s %s %s_MODULUS %d %d %s' % (
            tblname, nm('DEGREE'), fcoq, betacoq, pn, kdiv, mult, tblname), ev)

    def nonres(const, eqn, fld, fcoq, tblname, tbl, idx):
        # Euler criterion in the extension read off the Frobenius table (see ConfigChecks.v)
        F(c, n, const, eqn, 'el_eq %s (nth %d %s []) [-1]' % (fcoq, idx, tblname),
          lambda: [('%s: %s[%d] = -1 (non-residue by Euler criterion)' % (const, tblname, idx),
                    fld.el(tbl[idx]) if idx < len(tbl) else None, fld.el([-1]))])

    if k == 'fp2':
        D(c, nm('BETA'), 'Z', zc(nr[0]))
        f1, f1c = Fld(p), '(B1 %s_MODULUS)' % pn
        F(c, n, 'NONRESIDUE', 'nonresidue', 'pow_is %s %s ((%s_MODULUS - 1) / 2) [-1]' % (f1c, nm('NONRESIDUE'), pn),
          lambda: [('beta^((p-1)/2) = -1 (quadratic non-residue)', f1.pow(f1.el(nr), (p - 1) // 2), f1.el([-1]))])
        frob('FROBENIUS_COEFF_FP2_C1', 'frob_c1', f1, f1c, nr, nm('NONRESIDUE'), 2, 1, c1, nm('FROB_C1'))
        D(c, nm('NONRESIDUE_CFG'), 'list Z', zl(r['NONRESIDUE_CFG']))
        D(c, nm('FROB_C1_CFG'), 'list (list Z)', zll(r['FROBENIUS_COEFF_FP2_C1']))
        F(c, n, 'wrapper forwarding', 'fwd',
          'lists_eqb %s %s && forallb2 lists_eqb %s %s' % (nm('NONRESIDUE_CFG'), nm('NONRESIDUE'), nm('FROB_C1_CFG'), nm('FROB_C1')),
          lambda: [('Fp2Config::NONRESIDUE = QuadExtConfig::NONRESIDUE', r['NONRESIDUE_CFG'], nr),
                   ('FROBENIUS_COEFF_FP2_C1 = FROBENIUS_COEFF_C1', r['FROBENIUS_COEFF_FP2_C1'], c1)])
    elif k == 'fp3':
        D(c, nm('BETA'), 'Z', zc(nr[0]))
        f1, f1c = Fld(p), '(B1 %s_MODULUS)' % pn
        F(c, n, 'NONRESIDUE', 'nonresidue',
          '((%s_MODULUS - 1) mod 3 =? 0) && pow_isnt %s %s ((%s_MODULUS - 1) / 3) [1]' % (pn, f1c, nm('NONRESIDUE'), pn),
          lambda: [('3 | p-1', (p - 1) % 3, 0),
                   ('beta^((p-1)/3) != 1 (cubic non-residue)', f1.pow(f1.el(nr), (p - 1) // 3) != f1.one(), True)])
        frob('FROBENIUS_COEFF_FP3_C1', 'frob_c1', f1, f1c, nr, nm('NONRESIDUE'), 3, 1, c1, nm('FROB_C1'))
        frob('FROBENIUS_COEFF_FP3_C2', 'frob_c2', f1, f1c, nr, nm('NONRESIDUE'), 3, 2, r['FROBENIUS_COEFF_C2'], nm('FROB_C2'))
        # square-root parameters of Fp3
        s3, tm, q = r['TWO_ADICITY'], r['TRACE_MINUS_ONE_DIV_TWO'], r['QUADRATIC_NONRESIDUE_TO_T']
        D(c, nm('TWO_ADICITY'), 'Z', zc(s3))
        D(c, nm('TRACE_MINUS_ONE_DIV_TWO'), 'Z', zc(tm))
        D(c, nm('QNR_TO_T'), 'list Z', zl(q))
        f3, f3c = Fld(p, 3, nr[0]), '(B3 %s_MODULUS %s)' % (pn, nm('BETA'))
        F(c, n, 'TWO_ADICITY,TRACE_MINUS_ONE_DIV_TWO,QUADRATIC_NONRESIDUE_TO_T', 'sqrt_params',
          'fp3_sqrt_ok %s %s_MODULUS %s %s %s' % (f3c, pn, nm('TWO_ADICITY'), nm('TRACE_MINUS_ONE_DIV_TWO'), nm('QNR_TO_T')),
          lambda: [('p^3-1 = 2^s*(2*tm+1), s>0', (p ** 3 - 1, s3 > 0), ((1 << s3) * (2 * tm + 1), True)),
                   ('qnr_to_t^(2^s) = 1', f3.pow(f3.el(q), 1 << s3), f3.one()),
                   ('qnr_to_t^(2^(s-1)) = -1 (order exactly 2^s)', f3.pow(f3.el(q), 1 << max(s3 - 1, 0)), f3.el([-1]))])
        sk = r.get('SQRT_KIND')
        sq = [r.get('SQRT_TWO_ADICITY'), r.get('SQRT_TRACE_MINUS_ONE_DIV_TWO')] + list(r.get('SQRT_QNR_TO_TRACE') or [])
        if sk == 'tonelli_shanks':
            D(c, nm('SQRT_PRECOMP'), 'list Z', zl(sq))
        F(c, n, 'SQRT_PRECOMP', 'sqrt_precomp',
          'lists_eqb %s (%s :: %s :: %s)' % (nm('SQRT_PRECOMP'), nm('TWO_ADICITY'), nm('TRACE_MINUS_ONE_DIV_TWO'), nm('QNR_TO_T'))
          if sk == 'tonelli_shanks' else 'false',
          lambda: [('Fp3 SQRT_PRECOMP = TonelliShanks { TWO_ADICITY, QUADRATIC_NONRESIDUE_TO_T, TRACE_MINUS_ONE_DIV_TWO }',
                    (sk, sq), ('tonelli_shanks', [s3, tm] + list(q)))])
    elif k == 'fp4':
        b2 = by[(c, base)]
        f1, f1c = Fld(p), '(B1 %s_MODULUS)' % pn
        F(c, n, 'NONRESIDUE', 'nonresidue_shape', 'lists_eqb %s [0; 1]' % nm('NONRESIDUE'),
          lambda: [('Fp4::NONRESIDUE = u (the generator of Fp2)', nr, [0, 1])])
        frob('FROBENIUS_COEFF_FP4_C1', 'frob_c1', f1, f1c, b2['NONRESIDUE'], base + '_NONRESIDUE', 4, 1, c1, nm('FROB_C1'))
        nonres('NONRESIDUE', 'nonresidue', f1, f1c, nm('FROB_C1'), c1, 2)
    elif k == 'fp6_2over3':
        b3 = by[(c, base)]
        f1, f1c = Fld(p), '(B1 %s_MODULUS)' % pn
        F(c, n, 'NONRESIDUE', 'nonresidue_shape', 'lists_eqb %s [0; 1; 0]' % nm('NONRESIDUE'),
          lambda: [('Fp6::NONRESIDUE = u (the generator of Fp3)', nr, [0, 1, 0])])
        frob('FROBENIUS_COEFF_FP6_C1', 'frob_c1', f1, f1c, b3['NONRESIDUE'], base + '_NONRESIDUE', 6, 1, c1, nm('FROB_C1'))
        nonres('NONRESIDUE', 'nonresidue', f1, f1c, nm('FROB_C1'), c1, 3)
    elif k == 'fp6_3over2':
        f2, f2c = fld_of(c, base)
        F(c, n, 'NONRESIDUE', 'nonresidue',
          '((%s_MODULUS * %s_MODULUS - 1) mod 3 =? 0) && pow_isnt %s %s ((%s_MODULUS * %s_MODULUS - 1) / 3) [1]' % (
              pn, pn, f2c, nm('NONRESIDUE'), pn, pn),
          lambda: [('3 | p^2-1', (p * p - 1) % 3, 0),
                   ('xi^((p^2-1)/3) != 1 (cubic non-residue in Fp2)', f2.pow(f2.el(nr), (p * p - 1) // 3) != f2.one(), True)])
        frob('FROBENIUS_COEFF_FP6_C1', 'frob_c1', f2, f2c, nr, nm('NONRESIDUE'), 3, 1, c1, nm('FROB_C1'))
        frob('FROBENIUS_COEFF_FP6_C2', 'frob_c2', f2, f2c, nr, nm('NONRESIDUE'), 3, 2, r['FROBENIUS_COEFF_C2'], nm('FROB_C2'))
    elif k == 'fp12':
        b6 = by[(c, base)]
        f2, f2c = fld_of(c, b6['base'])
        F(c, n, 'NONRESIDUE', 'nonresidue_shape', 'lists_eqb %s [0; 0; 1; 0; 0; 0]' % nm('NONRESIDUE'),
          lambda: [('Fp12::NONRESIDUE = v (the generator of Fp6)', nr, [0, 0, 1, 0, 0, 0])])
        frob('FROBENIUS_COEFF_FP12_C1', 'frob_c1', f2, f2c, b6['NONRESIDUE'], base + '_NONRESIDUE', 6, 1, c1, nm('FROB_C1'))
        nonres('NONRESIDUE', 'nonresidue', f2, f2c, nm('FROB_C1'), c1, 6)


def fft_ext_facts(r, by, D, F, tower_of):
    """FftField constants of an extension field (read through the FftField impl of the extension type): each is the
    embedding of the base-prime-field constant, Option-ness as in the base field, exact orders in the extension"""
    c, n = r['crate'], r['name']
    nm = lambda key: '%s_%s' % (n, key)
    pn = base_prime(by, c, n)
    b0 = by[(c, pn)]
    pnm = lambda key: '%s_%s' % (pn, key)
    deg = r['DEGREE']
    tw, twc = tower_of(c, n)
    opt = lambda v: [] if v is None else [v]
    g, s, root = r['FFT_GENERATOR'], r['FFT_TWO_ADICITY'], r['FFT_TWO_ADIC_ROOT_OF_UNITY']
    sb, sk, lw = r['FFT_SMALL_SUBGROUP_BASE'], r['FFT_SMALL_SUBGROUP_BASE_ADICITY'], r['FFT_LARGE_SUBGROUP_ROOT_OF_UNITY']
    D(c, nm('FFT_GENERATOR'), 'list Z', zl(g))
    D(c, nm('FFT_TWO_ADICITY'), 'Z', zc(s))
    D(c, nm('FFT_ROOT'), 'list Z', zl(root))
    D(c, nm('FFT_SMALL_SUBGROUP_BASE'), 'list Z', zl(opt(sb)))
    D(c, nm('FFT_SMALL_SUBGROUP_BASE_ADICITY'), 'list Z', zl(opt(sk)))
    D(c, nm('FFT_LARGE_ROOT'), 'list (list Z)', zll(opt(lw)))
    emb = lambda v: [v] + [0] * (deg - 1)
    F(c, n, 'FftField::GENERATOR,TWO_ADICITY,TWO_ADIC_ROOT_OF_UNITY', 'fft_embed',
      'embeds_ok %s %s %s && (%s =? %s) && embeds_ok %s %s %s' % (nm('FFT_GENERATOR'), pnm('GENERATOR'), nm('DEGREE'), nm('FFT_TWO_ADICITY'),
                                                                 pnm('TWO_ADICITY'), nm('FFT_ROOT'), pnm('TWO_ADIC_ROOT_OF_UNITY'), nm('DEGREE')),
      lambda: [('GENERATOR = (base-prime-field GENERATOR, 0, ..)', g, emb(b0['GENERATOR'])),
               ('TWO_ADICITY = base-prime-field TWO_ADICITY', s, b0['TWO_ADICITY']),
               ('TWO_ADIC_ROOT_OF_UNITY = (base-prime-field TWO_ADIC_ROOT_OF_UNITY, 0, ..)', root, emb(b0['TWO_ADIC_ROOT_OF_UNITY']))])
    F(c, n, 'FftField::TWO_ADIC_ROOT_OF_UNITY', 'fft_root_order', 'fft_root_ok %s %s %s' % (twc, nm('FFT_ROOT'), nm('FFT_TWO_ADICITY')),
      lambda: [('TWO_ADICITY > 0', s > 0, True),
               ('root^(2^s) = 1 in the extension', tw.coords(tw.pow(tw.el(root), 1 << s)), tw.coords(tw.one())),
               ('root^(2^(s-1)) = -1 in the extension (order exactly 2^s)', tw.coords(tw.pow(tw.el(root), 1 << max(s - 1, 0))), tw.coords(tw.el([-1])))])
    bsb, bsk, blw = b0['SMALL_SUBGROUP_BASE'], b0['SMALL_SUBGROUP_BASE_ADICITY'], b0['LARGE_SUBGROUP_ROOT_OF_UNITY']
    have = bsb is not None and bsk is not None and blw is not None
    F(c, n, 'FftField::SMALL_SUBGROUP_BASE,SMALL_SUBGROUP_BASE_ADICITY,LARGE_SUBGROUP_ROOT_OF_UNITY', 'fft_small_subgroup',
      'lists_eqb %s %s && lists_eqb %s %s && opt_embeds_ok %s %s %s' % (
          nm('FFT_SMALL_SUBGROUP_BASE'), '[%s]' % pnm('SMALL_SUBGROUP_BASE') if have else zl(opt(bsb)),
          nm('FFT_SMALL_SUBGROUP_BASE_ADICITY'), '[%s]' % pnm('SMALL_SUBGROUP_BASE_ADICITY') if have else zl(opt(bsk)),
          nm('FFT_LARGE_ROOT'), '[%s]' % pnm('LARGE_SUBGROUP_ROOT_OF_UNITY') if have else zl(opt(blw)), nm('DEGREE')),
      lambda: [('SMALL_SUBGROUP_BASE = that of the base prime field (same Option-ness)', sb, bsb),
               ('SMALL_SUBGROUP_BASE_ADICITY = that of the base prime field (same Option-ness)', sk, bsk),
               ('LARGE_SUBGROUP_ROOT_OF_UNITY = (base-prime-field LARGE_SUBGROUP_ROOT_OF_UNITY, 0, ..) (same Option-ness)',
                lw, None if blw is None else emb(blw))])
    if lw is not None and sb is not None and sk is not None:
        nn = (1 << s) * sb ** sk
        F(c, n, 'FftField::LARGE_SUBGROUP_ROOT_OF_UNITY', 'fft_large_order',
          'fft_large_ok %s (nth 0 %s []) %s (nth 0 %s 0) (nth 0 %s 0)' % (twc, nm('FFT_LARGE_ROOT'), nm('FFT_TWO_ADICITY'),
                                                                          nm('FFT_SMALL_SUBGROUP_BASE'), nm('FFT_SMALL_SUBGROUP_BASE_ADICITY')),
          lambda: [('s > 0, b > 1, k > 0', (s > 0, sb > 1, sk > 0), (True, True, True)),
                   ('w^n = 1 in the extension, n = 2^s b^k', tw.coords(tw.pow(tw.el(lw), nn)), tw.coords(tw.one())),
                   ('w^(n/2) != 1 in the extension', tw.pow(tw.el(lw), nn // 2) != tw.one(), True),
                   ('w^(n/b) != 1 in the extension (order exactly 2^s b^k)', tw.pow(tw.el(lw), nn // sb) != tw.one(), True)])
    elif lw is not None:
        F(c, n, 'FftField::LARGE_SUBGROUP_ROOT_OF_UNITY', 'fft_large_order', 'false',
          lambda: [('LARGE_SUBGROUP_ROOT_OF_UNITY present without SMALL_SUBGROUP_BASE / _ADICITY', (sb, sk), 'both present')])


def curve_common(r, by, D, F, fld_of):
    c, n = r['crate'], r['name']
    nm = lambda key: '%s_%s' % (n, key)
    fr = by[(c, r['scalar'])]
    rr = fr['MODULUS']
    h, hinv = r['COFACTOR'], r['COFACTOR_INV']
    D(c, nm('COFACTOR'), 'Z', zc(h))
    D(c, nm('COFACTOR_INV'), 'Z', zc(hinv))
    D(c, nm('P'), 'Z', zc(r['P']))
    D(c, nm('R_ORDER'), 'Z', zc(r['R_ORDER']))
    D(c, nm('BASE_DEGREE'), 'Z', zc(r['BASE_DEGREE']))
    fld, fcoq = fld_of(c, r['base'])
    bp = fld.p
    F(c, n, 'BaseField/ScalarField', 'fields',
      '(%s =? %s_MODULUS) && (%s =? %s_MODULUS) && (%s =? %d)' % (nm('R_ORDER'), r['scalar'], nm('P'), base_prime(by, c, r['base']),
                                                                   nm('BASE_DEGREE'), fld.deg),
      lambda: [('ScalarField modulus = registered scalar field', r['R_ORDER'], rr),
               ('BaseField characteristic/degree = registered base field', (r['P'], r['BASE_DEGREE']), (bp, fld.deg))])
    F(c, n, 'COFACTOR_INV', 'cofactor_inv', 'cofactor_inv_ok %s_MODULUS %s %s' % (r['scalar'], nm('COFACTOR'), nm('COFACTOR_INV')),
      lambda: [('COFACTOR * COFACTOR_INV = 1 (mod r)', h * hinv % rr, 1 % rr)])
    q = bp ** fld.deg
    F(c, n, 'COFACTOR', 'hasse', 'hasse_ok (%s ^ %s) %s %s_MODULUS' % (nm('P'), nm('BASE_DEGREE'), nm('COFACTOR'), r['scalar']),
      lambda: [('(h*r - (q+1))^2 <= 4q (Hasse interval)', (h * rr - (q + 1)) ** 2 <= 4 * q, True)])
    return fld, fcoq, rr


def base_prime(by, c, base):
    b = by[(c, base)]
    while b['kind'] != 'prime':
        b = by[(c, b['base'])]
    return b['name']


def sw_facts(r, by, D, F, fld_of):
    c, n = r['crate'], r['name']
    nm = lambda key: '%s_%s' % (n, key)
    fld, fcoq, rr = curve_common(r, by, D, F, fld_of)
    a, b, x, y = r['COEFF_A'], r['COEFF_B'], r['GENERATOR_X'], r['GENERATOR_Y']
    for key in ('COEFF_A', 'COEFF_B', 'GENERATOR_X', 'GENERATOR_Y'):
        D(c, nm(key), 'list Z', zl(r[key]))
    e = fld.el
    F(c, n, 'GENERATOR', 'on_curve',
      '%s && sw_on_ok %s %s %s %s %s' % ('false' if r['GENERATOR_INFINITY'] else 'true', fcoq, nm('COEFF_A'), nm('COEFF_B'),
                                         nm('GENERATOR_X'), nm('GENERATOR_Y')),
      lambda: [('generator is not the point at infinity', r['GENERATOR_INFINITY'], False),
               ('y^2 = x^3 + a x + b', fld.mul(e(y), e(y)),
                fld.add(fld.add(fld.mul(fld.mul(e(x), e(x)), e(x)), fld.mul(e(a), e(x))), e(b)))])
    F(c, n, 'GENERATOR', 'order', 'sw_order_ok %s %s %s %s %s_MODULUS' % (fcoq, nm('COEFF_A'), nm('GENERATOR_X'), nm('GENERATOR_Y'), r['scalar']),
      lambda: [('r * G = O (affine chord-tangent law)', fld.sw_mul(e(a), rr, (e(x), e(y))), None)])


def te_facts(r, by, D, F, fld_of):
    c, n = r['crate'], r['name']
    nm = lambda key: '%s_%s' % (n, key)
    fld, fcoq, rr = curve_common(r, by, D, F, fld_of)
    a, d, x, y = r['COEFF_A'], r['COEFF_D'], r['GENERATOR_X'], r['GENERATOR_Y']
    ma, mb = r['MONT_COEFF_A'], r['MONT_COEFF_B']
    for key in ('COEFF_A', 'COEFF_D', 'GENERATOR_X', 'GENERATOR_Y', 'MONT_COEFF_A', 'MONT_COEFF_B'):
        D(c, nm(key), 'list Z', zl(r[key]))
    e, m = fld.el, fld.mul
    F(c, n, 'GENERATOR', 'on_curve', 'te_on_ok %s %s %s %s %s' % (fcoq, nm('COEFF_A'), nm('COEFF_D'), nm('GENERATOR_X'), nm('GENERATOR_Y')),
      lambda: [('a x^2 + y^2 = 1 + d x^2 y^2', fld.add(m(e(a), m(e(x), e(x))), m(e(y), e(y))),
                fld.add(fld.one(), m(e(d), m(m(e(x), e(x)), m(e(y), e(y))))))])
    F(c, n, 'GENERATOR', 'order', 'te_order_ok %s %s %s %s %s %s_MODULUS' % (fcoq, nm('COEFF_A'), nm('COEFF_D'), nm('GENERATOR_X'), nm('GENERATOR_Y'), r['scalar']),
      lambda: [('r * G = (0,1) (affine Edwards law)', fld.te_mul(e(a), e(d), rr, (e(x), e(y))), (fld.zero(), fld.one())),
               ('G != (0,1)', (e(x), e(y)) != (fld.zero(), fld.one()), True)])
    amd = fld.sub(e(a), e(d))
    q = fld.p ** fld.deg
    F(c, n, 'MontCurveConfig::COEFF_A,COEFF_B', 'montgomery',
      'mont_te_ok %s (%s ^ %s) %s %s %s %s' % (fcoq, nm('P'), nm('BASE_DEGREE'), nm('COEFF_A'), nm('COEFF_D'), nm('MONT_COEFF_A'), nm('MONT_COEFF_B')),
      lambda: [('a != d', amd != fld.zero(), True),
               ('A*(a-d) = 2(a+d)', m(e(ma), amd), fld.add(fld.add(e(a), e(d)), fld.add(e(a), e(d)))),
               ('B*(a-d) is a non-zero square (B = 4/(a-d) up to an isomorphism v -> c v)',
                fld.pow(m(e(mb), amd), (q - 1) // 2), fld.one())])
    if m(e(mb), amd) != e([4]):
        NOTES.append('%s/%s: MontCurveConfig::COEFF_B is 4/(a-d) only up to a square factor (isomorphic Montgomery model)' % (c, n))


def glv_facts(r, by, D, F, fld_of):
    c, n = r['crate'], r['name']
    nm = lambda key: '%s_%s' % (n, key)
    cv = by[(c, r['curve'])]
    fld, fcoq = fld_of(c, cv['base'])
    rr = by[(c, cv['scalar'])]['MODULUS']
    lam = r['LAMBDA']
    co = r['SCALAR_DECOMP_COEFFS']
    D(c, nm('LAMBDA'), 'Z', zc(lam))
    D(c, nm('COEFFS'), 'list Z', zl(co))
    D(c, nm('ENDO_COEFFS'), 'list (list Z)', zll(r['ENDO_COEFFS']))
    cn = r['curve']
    e = fld.el
    if len(r['ENDO_COEFFS']) != 1:
        F(c, n, 'ENDO_COEFFS', 'beta', 'false', lambda: [('exactly one endomorphism coefficient', len(r['ENDO_COEFFS']), 1)])
        return
    beta = r['ENDO_COEFFS'][0]
    F(c, n, 'ENDO_COEFFS', 'beta', 'pow_is %s (nth 0 %s []) 3 [1] && pow_isnt %s (nth 0 %s []) 1 [1]' % (fcoq, nm('ENDO_COEFFS'), fcoq, nm('ENDO_COEFFS')),
      lambda: [('beta^3 = 1', fld.pow(e(beta), 3), fld.one()), ('beta != 1', e(beta) != fld.one(), True)])
    F(c, n, 'LAMBDA', 'lambda', 'glv_lambda_ok %s_MODULUS %s' % (cv['scalar'], nm('LAMBDA')),
      lambda: [('lambda^2 + lambda + 1 = 0 (mod r)', (lam * lam + lam + 1) % rr, 0), ('0 <= lambda < r', 0 <= lam < rr, True)])
    F(c, n, 'SCALAR_DECOMP_COEFFS', 'lattice', 'glv_lattice_ok %s_MODULUS %s %s' % (cv['scalar'], nm('LAMBDA'), nm('COEFFS')),
      lambda: [('n11 + lambda*n12 = 0 (mod r)', (co[0] + lam * co[1]) % rr, 0),
               ('n21 + lambda*n22 = 0 (mod r)', (co[2] + lam * co[3]) % rr, 0),
               ('|det| = r', abs(co[0] * co[3] - co[1] * co[2]), rr)])
    a, x, y = cv['COEFF_A'], cv['GENERATOR_X'], cv['GENERATOR_Y']
    F(c, n, 'ENDO_COEFFS,LAMBDA', 'endo',
      'glv_endo_ok %s %s_COEFF_A %s_GENERATOR_X %s_GENERATOR_Y (nth 0 %s []) %s' % (fcoq, cn, cn, cn, nm('ENDO_COEFFS'), nm('LAMBDA')),
      lambda: [('lambda * G = (beta * x, y)', fld.sw_mul(e(a), lam, (e(x), e(y))) if lam > 0 else None, (fld.mul(e(beta), e(x)), e(y)))])


def pairing_facts(r, by, D, F, fld_of):
    c, n, k = r['crate'], r['name'], r['kind']
    nm = lambda key: '%s_%s' % (n, key)
    p = by[(c, 'fq')]['MODULUS']
    rr = by[(c, 'fr')]['MODULUS']
    if k in ('bls12', 'bn'):
        x = -r['X'] if r['X_IS_NEGATIVE'] else r['X']
        D(c, nm('X'), 'Z', zc(x))
        g1, g2 = by[(c, 'g1')], by[(c, 'g2')]
        f2, f2c = fld_of(c, 'fq2')
        xi = by[(c, 'fq6')]['NONRESIDUE']
        b1 = g1['COEFF_B'] + [0]
        if r['TWIST_TYPE'] == 'M':
            tw = 'mul_is %s (g1_COEFF_B ++ [0]) fq6_NONRESIDUE g2_COEFF_B' % f2c
            twe = lambda: [('M-twist: b2 = b1 * xi', f2.el(g2['COEFF_B']), f2.mul(f2.el(b1), f2.el(xi)))]
        else:
            tw = 'mul_is %s g2_COEFF_B fq6_NONRESIDUE (g1_COEFF_B ++ [0])' % f2c
            twe = lambda: [('D-twist: b2 * xi = b1', f2.mul(f2.el(g2['COEFF_B']), f2.el(xi)), f2.el(b1))]
        F(c, n, 'TWIST_TYPE,G2 COEFF_B', 'twist', tw, twe)
    if k == 'bls12':
        F(c, n, 'X,X_IS_NEGATIVE', 'params', 'bls12_params_ok %s fq_MODULUS fr_MODULUS' % nm('X'),
          lambda: [('r = x^4 - x^2 + 1', rr, x ** 4 - x * x + 1), ('3p = (x-1)^2 r + 3x', 3 * p, (x - 1) ** 2 * rr + 3 * x)])
        D(c, nm('X_LIMBS'), 'list Z', zl(r['X_LIMBS']))
        F(c, n, 'X', 'x_limbs', 'x_limbs_ok %s %s' % (nm('X_LIMBS'), nm('X')),
          lambda: [('X limbs: value |x|, top limb non-zero', (naf64(r['X_LIMBS']), r['X_LIMBS'][-1] != 0), (abs(x), True))])
    elif k == 'bn':
        loop = r['ATE_LOOP_COUNT']
        D(c, nm('ATE_LOOP_COUNT'), 'list Z', zl(loop))
        D(c, nm('TWIST_MUL_BY_Q_X'), 'list Z', zl(r['TWIST_MUL_BY_Q_X']))
        D(c, nm('TWIST_MUL_BY_Q_Y'), 'list Z', zl(r['TWIST_MUL_BY_Q_Y']))
        F(c, n, 'X,X_IS_NEGATIVE', 'params', 'bn_params_ok %s fq_MODULUS fr_MODULUS' % nm('X'),
          lambda: [('p = 36x^4+36x^3+24x^2+6x+1', p, 36 * x ** 4 + 36 * x ** 3 + 24 * x * x + 6 * x + 1),
                   ('r = 36x^4+36x^3+18x^2+6x+1', rr, 36 * x ** 4 + 36 * x ** 3 + 18 * x * x + 6 * x + 1)])
        F(c, n, 'ATE_LOOP_COUNT', 'ate_loop', 'naf_ok %s && (naf_le %s =? 6 * %s + 2)' % (nm('ATE_LOOP_COUNT'), nm('ATE_LOOP_COUNT'), nm('X')),
          lambda: [('digits in {-1,0,1}', all(d in (-1, 0, 1) for d in loop), True), ('sum d_i 2^i = 6x+2', naf_le(loop), 6 * x + 2)])
        F(c, n, 'TWIST_MUL_BY_Q_X', 'twist_mul_by_q_x', '((fq_MODULUS - 1) mod 3 =? 0) && pow_is %s fq6_NONRESIDUE ((fq_MODULUS - 1) / 3) %s' % (f2c, nm('TWIST_MUL_BY_Q_X')),
          lambda: [('xi^((p-1)/3)', f2.el(r['TWIST_MUL_BY_Q_X']), f2.pow(f2.el(xi), (p - 1) // 3))])
        F(c, n, 'TWIST_MUL_BY_Q_Y', 'twist_mul_by_q_y', 'pow_is %s fq6_NONRESIDUE ((fq_MODULUS - 1) / 2) %s' % (f2c, nm('TWIST_MUL_BY_Q_Y')),
          lambda: [('xi^((p-1)/2)', f2.el(r['TWIST_MUL_BY_Q_Y']), f2.pow(f2.el(xi), (p - 1) // 2))])
    elif k in ('mnt4', 'mnt6'):
        ext = 'fq2' if k == 'mnt4' else 'fq3'
        fe, fec = fld_of(c, ext)
        g1, g2 = by[(c, 'g1')], by[(c, 'g2')]
        tw, twa = r['TWIST'], r['TWIST_COEFF_A']
        D(c, nm('TWIST'), 'list Z', zl(tw))
        D(c, nm('TWIST_COEFF_A'), 'list Z', zl(twa))
        loop = r['ATE_LOOP_COUNT']
        lc = sum(d << i for i, d in enumerate(loop[::-1]))
        if r['ATE_IS_LOOP_COUNT_NEG']:
            lc = -lc
        D(c, nm('ATE_LOOP_COUNT'), 'list Z', zl(loop))
        D(c, nm('ATE_SIGN'), 'Z', '(-1)' if r['ATE_IS_LOOP_COUNT_NEG'] else '1')
        w1 = r['FINAL_EXPONENT_LAST_CHUNK_1']
        w0 = r['FINAL_EXPONENT_LAST_CHUNK_ABS_OF_W0'] * (-1 if r['FINAL_EXPONENT_LAST_CHUNK_W0_IS_NEG'] else 1)
        D(c, nm('W1'), 'Z', zc(w1))
        D(c, nm('W0'), 'Z', zc(w0))
        unit = [0, 1] if k == 'mnt4' else [0, 1, 0]
        pad = (lambda l: l + [0] * (fe.deg - 1))
        a1 = pad(g1['COEFF_A'])
        b1 = pad(g1['COEFF_B'])
        t2 = fe.mul(fe.el(tw), fe.el(tw))
        F(c, n, 'TWIST', 'twist', 'lists_eqb %s %s' % (nm('TWIST'), zl(unit)), lambda: [('TWIST = u', tw, unit)])
        F(c, n, 'TWIST_COEFF_A', 'twist_coeff_a',
          'mul_is %s (g1_COEFF_A ++ %s) (tower_sq %s %s) %s && el_eq %s %s g2_COEFF_A' % (
              fec, zl([0] * (fe.deg - 1)), fec, nm('TWIST'), nm('TWIST_COEFF_A'), fec, nm('TWIST_COEFF_A')),
          lambda: [('TWIST_COEFF_A = a * twist^2', fe.el(twa), fe.mul(fe.el(a1), t2)),
                   ('G2::COEFF_A = TWIST_COEFF_A', fe.el(g2['COEFF_A']), fe.el(twa))])
        F(c, n, 'G2 COEFF_B', 'twist_coeff_b',
          'mul_is %s (g1_COEFF_B ++ %s) (tower_cube %s %s) g2_COEFF_B' % (fec, zl([0] * (fe.deg - 1)), fec, nm('TWIST')),
          lambda: [('G2::COEFF_B = b * twist^3', fe.el(g2['COEFF_B']), fe.mul(fe.el(b1), fe.mul(t2, fe.el(tw))))])
        h = g1['COFACTOR']
        F(c, n, 'ATE_LOOP_COUNT', 'ate_loop',
          'naf_ok %s && (%s * naf_le (rev %s) =? fq_MODULUS + 1 - g1_COFACTOR * fr_MODULUS - 1)' % (nm('ATE_LOOP_COUNT'), nm('ATE_SIGN'), nm('ATE_LOOP_COUNT')),
          lambda: [('digits in {-1,0,1}', all(d in (-1, 0, 1) for d in loop), True),
                   ('signed big-endian NAF value = t - 1, t = p + 1 - h r', lc, p + 1 - h * rr - 1)])
        tgt = p * p + 1 if k == 'mnt4' else p * p - p + 1
        F(c, n, 'FINAL_EXPONENT_LAST_CHUNK_1,_ABS_OF_W0,_W0_IS_NEG', 'final_exp',
          '%s_final_exp_ok fq_MODULUS fr_MODULUS %s %s' % (k, nm('W1'), nm('W0')),
          lambda: [('(w1*p + w0) * r = %s' % ('p^2+1' if k == 'mnt4' else 'p^2-p+1'), (w1 * p + w0) * rr, tgt)])
    elif k == 'cp6':
        fe, fec = fld_of(c, 'fq3')
        g1, g2 = by[(c, 'g1')], by[(c, 'g2')]
        tw = r['TWIST']
        D(c, nm('TWIST'), 'list Z', zl(tw))
        loop = -r['ATE_LOOP_COUNT'] if r['ATE_IS_LOOP_COUNT_NEG'] else r['ATE_LOOP_COUNT']
        D(c, nm('ATE_LOOP_COUNT'), 'Z', zc(loop))
        w1 = r['FINAL_EXPONENT_LAST_CHUNK_W1']
        w0 = r['FINAL_EXPONENT_LAST_CHUNK_ABS_OF_W0'] * (-1 if r['FINAL_EXPONENT_LAST_CHUNK_W0_IS_NEG'] else 1)
        D(c, nm('W1'), 'Z', zc(w1))
        D(c, nm('W0'), 'Z', zc(w0))
        a1, b1 = g1['COEFF_A'] + [0, 0], g1['COEFF_B'] + [0, 0]
        t2 = fe.mul(fe.el(tw), fe.el(tw))
        F(c, n, 'TWIST', 'twist', 'lists_eqb %s [0; 1; 0]' % nm('TWIST'), lambda: [('TWIST = u', tw, [0, 1, 0])])
        F(c, n, 'G2 COEFF_A', 'twist_coeff_a', 'mul_is %s (g1_COEFF_A ++ [0; 0]) (tower_sq %s %s) g2_COEFF_A' % (fec, fec, nm('TWIST')),
          lambda: [('G2::COEFF_A = a * twist^2', fe.el(g2['COEFF_A']), fe.mul(fe.el(a1), t2))])
        F(c, n, 'G2 COEFF_B', 'twist_coeff_b', 'mul_is %s (g1_COEFF_B ++ [0; 0]) (tower_cube %s %s) g2_COEFF_B' % (fec, fec, nm('TWIST')),
          lambda: [('G2::COEFF_B = b * twist^3', fe.el(g2['COEFF_B']), fe.mul(fe.el(b1), fe.mul(t2, fe.el(tw))))])
        h = g1['COFACTOR']
        F(c, n, 'ATE_LOOP_COUNT', 'ate_loop', 'ate_loop_mod_ok %s fq_MODULUS fr_MODULUS' % nm('ATE_LOOP_COUNT'),
          lambda: [('ATE_LOOP_COUNT > 0', loop > 0, True), ('ATE_LOOP_COUNT = t - 1 = p (mod r)', (loop - p) % rr, 0)])
        if loop != p - h * rr:
            NOTES.append('%s/%s: ATE_LOOP_COUNT is %s, not the documented t - 1 = p - h*r (%d bits vs %d); congruent mod r, which is '
                         'what the fact states' % (c, n, 'p - r' if loop == p - rr else 'another representative', loop.bit_length(), (p - h * rr).bit_length()))
        F(c, n, 'FINAL_EXPONENT_LAST_CHUNK_W1,_ABS_OF_W0,_W0_IS_NEG', 'final_exp', 'mnt6_final_exp_ok fq_MODULUS fr_MODULUS %s %s' % (nm('W1'), nm('W0')),
          lambda: [('(w1*p + w0) * r = p^2-p+1', (w1 * p + w0) * rr, p * p - p + 1)])
    elif k == 'bw6':
        x = -r['X'] if r['X_IS_NEGATIVE'] else r['X']
        D(c, nm('X'), 'Z', zc(x))
        D(c, nm('X_MINUS_1_DIV_3'), 'Z', zc(r['X_MINUS_1_DIV_3']))
        l1 = -r['ATE_LOOP_COUNT_1'] if r['ATE_LOOP_COUNT_1_IS_NEGATIVE'] else r['ATE_LOOP_COUNT_1']
        D(c, nm('ATE_LOOP_COUNT_1'), 'Z', zc(l1))
        l2 = r['ATE_LOOP_COUNT_2']
        D(c, nm('ATE_LOOP_COUNT_2'), 'list Z', zl(l2))
        D(c, nm('ATE_SIGN_2'), 'Z', '(-1)' if r['ATE_LOOP_COUNT_2_IS_NEGATIVE'] else '1')
        s2 = -1 if r['ATE_LOOP_COUNT_2_IS_NEGATIVE'] else 1
        F(c, n, 'X,X_MINUS_1_DIV_3,ATE_LOOP_COUNT_1', 'params',
          'bw6_params_ok %s fr_MODULUS %s %s' % (nm('X'), nm('X_MINUS_1_DIV_3'), nm('ATE_LOOP_COUNT_1')),
          lambda: [('r = p_bls12(x): 3r = (x-1)^2 (x^4-x^2+1) + 3x', 3 * rr, (x - 1) ** 2 * (x ** 4 - x * x + 1) + 3 * x),
                   ('3 * X_MINUS_1_DIV_3 = |x - 1|', 3 * r['X_MINUS_1_DIV_3'], abs(x - 1)),
                   ('ATE_LOOP_COUNT_1 = x', l1, x)])
        ht, hy, t0 = r['H_T'], r['H_Y'], r['T_MOD_R_IS_ZERO']
        D(c, nm('H_T'), 'Z', zc(ht))
        D(c, nm('H_Y'), 'Z', zc(hy))
        g1, g2 = by[(c, 'g1')], by[(c, 'g2')]
        h1, h2 = g1['COFACTOR'], g2['COFACTOR']
        w = x ** 5 - 3 * x ** 4 + 3 * x ** 3 - x
        tt = -w + ht * rr if t0 else w + 3 + ht * rr
        y3 = w + 3 * hy * rr if t0 else w + 3 + 3 * hy * rr
        F(c, n, 'H_T,H_Y,T_MOD_R_IS_ZERO (and Fq::MODULUS, G1/G2 COFACTOR)', 'bw6_curve',
          'bw6_curve_ok %s fq_MODULUS fr_MODULUS %s %s %s g1_COFACTOR g2_COFACTOR' % (nm('X'), nm('H_T'), nm('H_Y'), 'true' if t0 else 'false'),
          lambda: [('4p = t^2 + 3y^2 with w = x^5-3x^4+3x^3-x, t = %s + H_T*r, 3y = %s + 3*H_Y*r (T_MOD_R_IS_ZERO = %s): 12p = 3t^2 + (3y)^2'
                    % (('-w', 'w', 'true') if t0 else ('w+3', 'w+3', 'false')), 12 * p, 3 * tt * tt + y3 * y3),
                   ('t = p + 1 - COFACTOR(G1)*r (trace of G1)', tt, p + 1 - h1 * rr),
                   ('G2 is a sextic twist: 2(p + 1 - COFACTOR(G2)*r) - t = +-3y', (2 * (p + 1 - h2 * rr) - tt) ** 2, y3 * y3)])
        f1, f1c = fld_of(c, 'fq')
        beta = by[(c, 'fq3')]['NONRESIDUE']
        if r['TWIST_TYPE'] == 'M':
            F(c, n, 'TWIST_TYPE,G2 COEFF_A,COEFF_B', 'twist',
              'mul_is %s g1_COEFF_B fq3_NONRESIDUE g2_COEFF_B && el_eq %s g1_COEFF_A [0] && el_eq %s g2_COEFF_A [0]' % (f1c, f1c, f1c),
              lambda: [('M-twist: b2 = b1 * beta (beta = Fq3::NONRESIDUE)', f1.el(g2['COEFF_B']), f1.mul(f1.el(g1['COEFF_B']), f1.el(beta))),
                       ('a1 = a2 = 0', (f1.el(g1['COEFF_A']), f1.el(g2['COEFF_A'])), (f1.zero(), f1.zero()))])
        else:
            F(c, n, 'TWIST_TYPE,G2 COEFF_A,COEFF_B', 'twist',
              'mul_is %s g2_COEFF_B fq3_NONRESIDUE g1_COEFF_B && el_eq %s g1_COEFF_A [0] && el_eq %s g2_COEFF_A [0]' % (f1c, f1c, f1c),
              lambda: [('D-twist: b2 * beta = b1 (beta = Fq3::NONRESIDUE)', f1.mul(f1.el(g2['COEFF_B']), f1.el(beta)), f1.el(g1['COEFF_B'])),
                       ('a1 = a2 = 0', (f1.el(g1['COEFF_A']), f1.el(g2['COEFF_A'])), (f1.zero(), f1.zero()))])
        F(c, n, 'ATE_LOOP_COUNT_2', 'ate_loop_2',
          'naf_ok %s && (%s * naf_le %s =? %s * %s - %s - 1)' % (nm('ATE_LOOP_COUNT_2'), nm('ATE_SIGN_2'), nm('ATE_LOOP_COUNT_2'), nm('X'), nm('X'), nm('X')),
          lambda: [('digits in {-1,0,1}', all(d in (-1, 0, 1) for d in l2), True), ('signed NAF value = x^2 - x - 1', s2 * naf_le(l2), x * x - x - 1)])


def map_facts(r, by, D, F, fld_of):
    """map-to-curve parameters (SWU / Wahby-Boneh / Elligator2), psi endomorphism coefficients, SW<->TE pairs"""
    c, n, k = r['crate'], r['name'], r['kind']
    nm = lambda key: '%s_%s' % (n, key)
    if k == 'swu':
        cv = by[(c, r['curve'])]
        fld, fcoq = fld_of(c, cv['base'])
        e = fld.el
        q = fld.p ** fld.deg
        cn = r['curve']
        D(c, nm('ZETA'), 'list Z', zl(r['ZETA']))
        F(c, n, 'ZETA', 'zeta_nonsquare', 'pow_is %s %s ((%s_P ^ %s_BASE_DEGREE - 1) / 2) [-1]' % (fcoq, nm('ZETA'), cn, cn),
          lambda: [('ZETA^((q-1)/2) = -1 (non-square)', fld.pow(e(r['ZETA']), (q - 1) // 2), e([-1]))])
        F(c, n, 'COEFF_A,COEFF_B of the SWU curve', 'ab_nonzero', 'nonzero_ok %s %s_COEFF_A && nonzero_ok %s %s_COEFF_B' % (fcoq, cn, fcoq, cn),
          lambda: [('a != 0', e(cv['COEFF_A']) != fld.zero(), True), ('b != 0', e(cv['COEFF_B']) != fld.zero(), True)])

        def exc():
            A, B, Z = e(cv['COEFF_A']), e(cv['COEFF_B']), e(r['ZETA'])
            x = fld.mul(B, fld.inv(fld.mul(Z, A)))
            g = fld.add(fld.add(fld.mul(fld.mul(x, x), x), fld.mul(A, x)), B)
            return [('g(b/(ZETA*a))^((q-1)/2) = 1: the exceptional input u = 0 lands on a square (RFC 9380 6.6.2 criterion 4)',
                     fld.pow(g, (q - 1) // 2), fld.one())]
        F(c, n, 'ZETA', 'zeta_exceptional', 'swu_exceptional_ok %s (%s_P ^ %s_BASE_DEGREE) %s_COEFF_A %s_COEFF_B %s' % (fcoq, cn, cn, cn, cn, nm('ZETA')), exc)
    elif k == 'wb':
        dom, cod = by[(c, r['domain'])], by[(c, r['codomain'])]
        fld, fcoq = fld_of(c, dom['base'])
        e = fld.el
        for key in ('X_NUM', 'X_DEN', 'Y_NUM', 'Y_DEN'):
            D(c, nm(key), 'list (list Z)', zll(r[key]))

        def ev():
            if dom['base'] != cod['base']:
                return [('domain and codomain over the same field', dom['base'], cod['base'])]
            xn, xd, yn, yd = [[e(v) for v in r[key]] for key in ('X_NUM', 'X_DEN', 'Y_NUM', 'Y_DEN')]
            a1, b1, A, B = e(dom['COEFF_A']), e(dom['COEFF_B']), e(cod['COEFF_A']), e(cod['COEFF_B'])
            pm = fld.pmul
            xd2 = pm(xd, xd)
            xd3 = pm(xd2, xd)
            lhs = fld.ptrim(pm(pm(yn, yn), pm([b1, a1, fld.zero(), fld.one()], xd3)))
            rhs = fld.ptrim(pm(fld.padd(pm(xn, pm(xn, xn)), fld.padd(fld.pscale(A, pm(xn, xd2)), fld.pscale(B, xd3))), pm(yd, yd)))
            out = [('x_map_denominator, y_map_denominator, y_map_numerator are not the zero polynomial',
                    (fld.ptrim(xd) != [], fld.ptrim(yd) != [], fld.ptrim(yn) != []), (True, True, True)),
                   ('degree of yn^2 (x^3+a\'x+b\') xd^3 = degree of (xn^3 + A xn xd^2 + B xd^3) yd^2', len(lhs), len(rhs))]
            for i in range(min(len(lhs), len(rhs))):
                if lhs[i] != rhs[i]:
                    out.append(('coefficient of x^%d in yn^2 (x^3+a\'x+b\') xd^3 = (xn^3 + A xn xd^2 + B xd^3) yd^2' % i, lhs[i], rhs[i]))
            return out
        F(c, n, 'ISOGENY_MAP', 'isogeny_identity',
          'wb_iso_ok %s %s_COEFF_A %s_COEFF_B %s_COEFF_A %s_COEFF_B %s %s %s %s' % (
              fcoq, r['domain'], r['domain'], r['codomain'], r['codomain'], nm('X_NUM'), nm('X_DEN'), nm('Y_NUM'), nm('Y_DEN')), ev)
    elif k == 'elligator2':
        cv = by[(c, r['curve'])]
        fld, fcoq = fld_of(c, cv['base'])
        e, m = fld.el, fld.mul
        q = fld.p ** fld.deg
        cn = r['curve']
        for key in ('Z', 'ONE_OVER_COEFF_B_SQUARE', 'COEFF_A_OVER_COEFF_B'):
            D(c, nm(key), 'list Z', zl(r[key]))
        A, B = e(cv['MONT_COEFF_A']), e(cv['MONT_COEFF_B'])
        F(c, n, 'Z', 'z_nonsquare', 'pow_is %s %s ((%s_P ^ %s_BASE_DEGREE - 1) / 2) [-1]' % (fcoq, nm('Z'), cn, cn),
          lambda: [('Z^((q-1)/2) = -1 (non-square)', fld.pow(e(r['Z']), (q - 1) // 2), e([-1]))])
        F(c, n, 'ONE_OVER_COEFF_B_SQUARE', 'one_over_b_square', 'mul_is %s %s (tower_sq %s %s_MONT_COEFF_B) [1]' % (fcoq, nm('ONE_OVER_COEFF_B_SQUARE'), fcoq, cn),
          lambda: [('ONE_OVER_COEFF_B_SQUARE * B^2 = 1 (B = MontCurveConfig::COEFF_B)', m(e(r['ONE_OVER_COEFF_B_SQUARE']), m(B, B)), fld.one())])
        F(c, n, 'COEFF_A_OVER_COEFF_B', 'a_over_b', 'mul_is %s %s %s_MONT_COEFF_B %s_MONT_COEFF_A' % (fcoq, nm('COEFF_A_OVER_COEFF_B'), cn, cn),
          lambda: [('COEFF_A_OVER_COEFF_B * B = A (MontCurveConfig coefficients)', m(e(r['COEFF_A_OVER_COEFF_B']), B), A)])
    elif k == 'psi':
        # untwist-Frobenius-twist endomorphism of a BLS12 G2: (x, y) -> (c0 x^p, c1 y^p), psi^2: x -> c2 x
        pr = by[(c, 'pairing')]
        f2, f2c = fld_of(c, 'fq2')
        e = f2.el
        p = f2.p
        xi = e(by[(c, 'fq6')]['NONRESIDUE'])
        for key in ('COEFF_0', 'COEFF_1', 'DOUBLE_COEFF_0'):
            D(c, nm(key), 'list Z', zl(r[key]))
        src = ' [parsed from the source text: private constant]' if r.get('from_source') else ''
        for key, num, numc, den, what in (('COEFF_0', p - 1, 'fq_MODULUS - 1', 3, '(p-1)/3'),
                                          ('COEFF_1', p - 1, 'fq_MODULUS - 1', 2, '(p-1)/2'),
                                          ('DOUBLE_COEFF_0', p * p - 1, 'fq_MODULUS * fq_MODULUS - 1', 3, '(p^2-1)/3')):
            ex = num // den
            v = r[key]
            div = '((%s) mod %d =? 0)' % (numc, den)
            if pr['TWIST_TYPE'] == 'M':
                F(c, n, 'P_POWER_ENDOMORPHISM ' + key + src, key.lower(),
                  '%s && mul_pow_is %s %s fq6_NONRESIDUE ((%s) / %d) [1]' % (div, f2c, nm(key), numc, den),
                  (lambda v=v, ex=ex, what=what, num=num, den=den: [
                      ('%d divides the exponent numerator' % den, num % den, 0),
                      ('M-twist: c * xi^(%s) = 1 (c = xi^(-%s))' % (what, what), f2.mul(e(v), f2.pow(xi, ex)), f2.one())]))
            else:
                F(c, n, 'P_POWER_ENDOMORPHISM ' + key + src, key.lower(),
                  '%s && pow_is %s fq6_NONRESIDUE ((%s) / %d) %s' % (div, f2c, numc, den, nm(key)),
                  (lambda v=v, ex=ex, what=what, num=num, den=den: [
                      ('%d divides the exponent numerator' % den, num % den, 0),
                      ('D-twist: c = xi^(%s)' % what, e(v), f2.pow(xi, ex))]))
    elif k == 'sw_te':
        S, T = by[(c, r['sw'])], by[(c, r['te'])]
        fld, fcoq = fld_of(c, T['base'])
        e, m, sub, add = fld.el, fld.mul, fld.sub, fld.add
        sn, tn = r['sw'], r['te']

        def ev():
            if S['base'] != T['base']:
                return [('both models over the same field', S['base'], T['base'])]
            a, d, x, y = [e(T[key]) for key in ('COEFF_A', 'COEFF_D', 'GENERATOR_X', 'GENERATOR_Y')]
            A, B = e(T['MONT_COEFF_A']), e(T['MONT_COEFF_B'])
            sa, sb, X, Y = [e(S[key]) for key in ('COEFF_A', 'COEFF_B', 'GENERATOR_X', 'GENERATOR_Y')]
            c3, c2, c4, c9, c27 = e([3]), e([2]), e([4]), e([9]), e([27])
            u3 = sub(m(c3, m(B, X)), A)
            v3 = m(c3, m(x, m(B, Y)))
            kk = m(B, sub(a, d))
            out = [('3 != 0 and Montgomery B != 0', (c3 != fld.zero(), B != fld.zero()), (True, True)),
                   ('SW a: 3 B^2 a_sw = 3 - A^2 (Weierstrass form of the Montgomery model B v^2 = u^3 + A u^2 + u)', m(m(c3, m(B, B)), sa), sub(c3, m(A, A))),
                   ('SW b: 27 B^3 b_sw = 2 A^3 - 9 A', m(m(c27, m(m(B, B), B)), sb), sub(m(c2, m(m(A, A), A)), m(c9, A))),
                   ('TE generator y != 1', y != fld.one(), True),
                   ('generators correspond, u-coordinate: (3 B X - A)(1 - y) = 3 (1 + y)', m(u3, sub(fld.one(), y)), m(c3, add(fld.one(), y)))]
            if kk == c4:
                out.append(('generators correspond, v-coordinate (B(a-d) = 4): 3 x B Y = 3 B X - A', v3, u3))
            else:
                out.append(('generators correspond, v-coordinate up to the square root of B(a-d)/4: (3 x B Y)^2 B (a-d) = 4 (3 B X - A)^2',
                            m(m(v3, v3), kk), m(c4, m(u3, u3))))
            return out
        F(c, n, 'SW and TE models: COEFF_A,COEFF_B,GENERATOR', 'sw_te',
          'sw_te_ok %s %s_COEFF_A %s_COEFF_D %s_GENERATOR_X %s_GENERATOR_Y %s_MONT_COEFF_A %s_MONT_COEFF_B %s_COEFF_A %s_COEFF_B %s_GENERATOR_X %s_GENERATOR_Y' % (
              fcoq, tn, tn, tn, tn, tn, tn, sn, sn, sn, sn), ev)


# ------------------------------------------------------------------ Coq generation
HEADER = '(* GENERATED by props/C16/prop.py from `c16 dump` (constants of the crates compiled from /repo).\n   Do not edit: regenerated on every ./check C16 run. *)\n'


def gen_coq(defs, facts):
    changed = []
    CDIR = _CFG['coq'] + '/C16'
    os.makedirs(CDIR, exist_ok=True)
    for crate in CRATES:
        ds = defs.get(crate, [])
        t = HEADER + 'Require Import ZArith List. Import ListNotations. Open Scope Z_scope.\n\n'
        for (name, ty, term) in ds:
            t += 'Definition %s : %s := %s.\n' % (name, ty, term)
        if write_if_changed('%s/Dump_%s.v' % (CDIR, crate), t):
            changed.append('Dump_' + crate)
        fs = [f for f in facts if f.crate == crate]
        t = HEADER + 'From V Require Import Base.Field C16.ConfigChecks C16.Dump_%s.\n' % crate
        t += 'Require Import ZArith List Bool. Import ListNotations. Open Scope Z_scope.\n\n'
        for f in fs:
            t += '(* %s / %s / %s *)\nTheorem %s : %s = true.\nProof. vm_compute. reflexivity. Qed.\n' % (crate, f.const, f.eq, f.name, f.coq)
        t += '\nDefinition checks : list bool :=\n  [' + ';\n   '.join(f.coq for f in fs) + '].\n'
        t += 'Theorem all_facts : Forall (fun b => b = true) checks.\nProof.\n  unfold checks.\n'
        for f in fs:
            t += '  apply Forall_cons; [exact %s|].\n' % f.name
        t += '  apply Forall_nil.\nQed.\n'
        if write_if_changed('%s/Facts_%s.v' % (CDIR, crate), t):
            changed.append('Facts_' + crate)
    return changed


def evaluate(facts):
    """python evaluation of every equation; returns mismatch records"""
    out = []
    for f in facts:
        try:
            eqs = f.ev()
        except Exception as ex:
            eqs = [('evaluation raised %r' % ex, 0, 1)]
        for (what, l, r) in eqs:
            if l != r:
                cls = '%s/%s.%s/%s' % (f.crate, f.cfg, f.const, f.eq)
                out.append({'case': {'op': 'fact', 'args': [], 'class': cls},
                            'line': '99:fact %s %s' % (cls, f.name),
                            'why': '%s: lhs=%s rhs=%s (Coq: coq/C16/Facts_%s.v %s)' % (what, short(l), short(r), f.crate, f.name)})
    return out


def short(v):
    s = str(v)
    return s if len(s) < 700 else s[:340] + '...' + s[-340:]


def regenerate(build=True):
    recs = run_dump(build)
    os.makedirs(os.path.dirname(_CFG['dump_json']), exist_ok=True)
    write_if_changed(_CFG['dump_json'], json.dumps(recs, indent=0, sort_keys=True) + '\n')
    defs, facts, ids, by = build_facts(recs)
    changed = gen_coq(defs, facts)
    _STATE.update(recs=recs, facts=facts, ids=ids, by=by)
    return recs, facts, changed


def build_facts(recs):
    return build(recs)


def registry_scan(recs):
    """configurations implemented in /repo but not registered in the dump (listed, not a violation)"""
    import re, glob
    have = set()
    for r in recs:
        have.add(r['crate'])
    unc = []
    for d in sorted(glob.glob(_CFG['repo'] + '/curves/*/src')):
        crate = d.split('/')[-2]
        if crate == 'curve-constraint-tests':
            continue
        if crate not in have:
            unc.append('crate ' + crate + ' (whole crate; ed_on_bw6_761 re-exports ed_on_cp6_782)' if crate == 'ed_on_bw6_761' else 'crate ' + crate)
        for f in glob.glob(d + '/**/*.rs', recursive=True):
            if '/constraints/' in f:
                continue
            for m in re.finditer(r'^impl\s+(\w+Config)\s+for\s+(\w+)', open(f).read(), re.M):
                kind = {'WBConfig': 'wb', 'SWUConfig': 'swu', 'Elligator2Config': 'elligator2'}.get(m.group(1))
                if kind and not any(r['crate'] == crate and r['kind'] == kind for r in recs):
                    unc.append('%s: %s for %s (%s) -- map-to-curve parameters not covered' % (crate, m.group(1), m.group(2), os.path.basename(f)))
    return unc


def pre(ctx):
    configure(ctx)
    recs, facts, changed = regenerate(build=True)
    if changed:
        ctx['notes'].append('regenerated from the dump: ' + ', '.join(changed))
    ctx['notes'].append('configurations dumped: %d records, %d closed facts over %d crates' % (
        len([r for r in recs if r['kind'] != 'id']), len(facts), len({f.crate for f in facts})))
    # cross-check of the dump path against the literals in the source text (machinery check, not a fact)
    if os.environ.get('C16_TAMPER'):
        ctx['notes'].append('source-text cross-check skipped (C16_TAMPER self-test)')
    else:
        import srcscan
        comp, skip, bad = srcscan.scan([r for r in recs if not r.get('from_source')], _CFG['hdir'] + '/src/bin/c16.rs', _CFG['repo'])
        _STATE['src_bad'] = bad
        reexp = [x for x in skip if 're-exported' in x]
        other = [x for x in skip if 're-exported' not in x]
        ctx['notes'].append('source-text cross-check: %d dumped constants equal the literal parsed from /repo source, %d mismatches; '
                            'skipped: %d prime fields re-exported from another crate, %d non-literal initialisers (%s)' % (
                                len(comp), len(bad), len(reexp), len(other), '; '.join(other)[:400]))
        if len(comp) < 400:
            _STATE['src_bad'] = bad + ['only %d constants could be compared (parser broken?)' % len(comp)]
    unc = registry_scan(recs)
    unc += ['specialised mul_by_nonresidue / mul_by_a overrides (behaviour, see C02), psi coefficients of curves/bls12_381 and bls12_377 '
            'are private constants (read from the source text, not from the compiled crate), SQRT_PRECOMP of Fp2/Fp4/Fp6/Fp12 is None (nothing to check), '
            'GLV / psi based subgroup checks and cofactor clearing (behaviour, not constants)']
    ctx['notes'].append('uncovered (not a violation): ' + '; '.join(unc))
    if _STATE.get('dropped'):
        ctx['notes'].append('facts excluded because they fail on this tree (defects reported in props/C16/NOTES.md): ' + '; '.join(_STATE['dropped']))
    if NOTES:
        ctx['notes'].append('; '.join(sorted(set(NOTES))))


def extra(ctx, cases, lines, impl_out, model_out):
    configure(ctx)
    if 'facts' not in _STATE:
        regenerate(build=False)
    out = [(m, m['why']) for m in evaluate(_STATE['facts'])]
    for b in _STATE.get('src_bad') or []:
        # a constant read through the public traits of the compiled crate differs from the literal written in the source
        # text: the declared constant does not denote what is written (e.g. a broken read-back path such as into_bigint for
        # one limb count, or a const-evaluation defect) -- a violation with the constant as the failing input
        rec = {'case': {'op': 'source_literal', 'args': [], 'class': 'source_literal_vs_compiled_constant'},
               'line': b[:400], 'impl': 'compiled crate (public trait)', 'model': 'literal in the source text',
               'why': 'declared constant differs from the literal in the source text: ' + b[:600]}
        out.append((rec, rec['why']))
    return out


PRE_FATAL = True
COQ_PROPS = 'Props/C16.vo'
SHARDS = 4


# ------------------------------------------------------------------ correspondence for run_C16
def limbs(v, n):
    return [(v >> (64 * i)) & M64 for i in range(n)]


def gen(rng, tier):
    scale = 1 if tier == 'quick' else 20
    if 'recs' not in _STATE:
        if os.path.exists(_CFG['dump_json']):
            recs = json.load(open(_CFG['dump_json']))
            defs, facts, ids, by = build_facts(recs)
            _STATE.update(recs=recs, facts=facts, ids=ids, by=by)
        else:
            regenerate(build=True)
    ids, by = _STATE['ids'], _STATE['by']
    primes = sorted((i, by[k]) for k, i in ids.items())
    # every registered prime field: the constants the derive macro / const fns produce, against the model
    for (i, r) in primes:
        p, N = r['MODULUS'], r['N']
        yield 'cfg_mont', [[i], [p], [N]], 'registered/%d-limb' % N
        yield 'cfg_two_adic', [[i], [p], [N]], 'registered/%d-limb' % N
        yield 'cfg_root', [[i], [p], [r['GENERATOR']]], 'registered/%d-limb' % N
        yield 'mont_rr2', [[N], limbs(p, N)], 'shipped-modulus'
        yield 'two_adic', [[N], limbs(p, N)], 'shipped-modulus'
        yield 'num_bits', [[N], limbs(p, N)], 'shipped-modulus'
    # Fp::pow against pow_mod on the registered fields: boundary bases / exponents
    for (i, r) in primes:
        p = r['MODULUS']
        if p.bit_length() > 400 and tier == 'quick' and i % 3:
            continue
        for _ in range(2 * scale):
            b = rng.choice([0, 1, 2, p - 1, p - 2, r['GENERATOR'], rng.randrange(p)])
            e = rng.choice([0, 1, 2, 3, (p - 1) // 2, p - 1, p - 2, p, 1 << 64, (1 << 64) - 1, rng.getrandbits(rng.choice([8, 63, 64, 65, 130]))])
            yield 'cfg_pow', [[i], [p], [b], [e]], 'pow/%s' % ('small-exp' if e < 4 else 'large-exp')
    # arbitrary odd moduli: montgomery_r / r2, two-adic decomposition, bit size  (N = 1..13)
    for _ in range(120 * scale):
        n = rng.randrange(1, 14)
        kind = rng.randrange(7)
        W = 1 << (64 * n)
        if kind == 0:
            m, cls = W - 1, 'all-ones'                                  # no spare bit, maximal
        elif kind == 1:
            m, cls = (W >> 1) + 1, 'top-bit+1'
        elif kind == 2:
            m, cls = (W >> 1) - 1, 'spare-bit-all-ones'
        elif kind == 3:
            m, cls = (1 << rng.randrange(1, 64 * n)) + 1, 'pow2+1'       # high two-adicity
        elif kind == 4:
            m, cls = rng.getrandbits(rng.randrange(2, 64 * n + 1)) | 1, 'random-short'
        elif kind == 5:
            m, cls = ((rng.getrandbits(64 * n) >> rng.randrange(64)) << rng.randrange(1, 40)) % W | 1, 'random-2adic'
        else:
            m, cls = rng.getrandbits(64 * n) | 1 | (1 << (64 * n - 1)), 'random-full'
        if m < 3:
            m = 3
        yield 'mont_rr2', [[n], limbs(m, n)], cls
        yield 'two_adic', [[n], limbs(m, n)], cls
        # const_num_bits only inspects the top limb: it is the bit length exactly when N is the minimal
        # limb count (which fact `mont` establishes for every shipped modulus); other inputs are out of domain
        nmin = (m.bit_length() + 63) // 64
        yield 'num_bits', [[nmin], limbs(m, nmin)], cls


def nontrivial(case, out):
    return True


def xcheck_ok(c):
    if c['op'] == 'cfg_pow':
        return c['args'][1][0].bit_length() <= 130 or c['args'][3][0] < (1 << 66)
    if c['op'] == 'cfg_root':
        return c['args'][1][0].bit_length() <= 260
    return True


XCHECK = {'quick': 60, 'thorough': 300}
RULE = ('C16 is a finite-domain property: the obligations are the closed facts of coq/C16/Facts_<crate>.v (one per defining '
        'equation of every registered configuration, regenerated from the compiled crates and re-proved by kernel computation); '
        'the cases counted here only tie the generic model functions (mont_r, mont_r2, mont_inv, two-adic decomposition, '
        'bit size, pow_mod) to the const fns / Fp::pow of /repo on every registered field plus structured odd moduli for '
        'N = 1..13; every case is non-trivial; distinct = distinct case lines')
TRUSTED = ['T-const: harness/src/bin/c16.rs `dump` prints the associated constants through the public traits; '
           'props/C16/prop.py turns them into coq/C16/Dump_<crate>.v and the statements of coq/C16/Facts_<crate>.v',
           'Bignums.BigZ / primitive Uint63 arithmetic inside vm_compute (the Uint63 axioms listed by Print Assumptions)',
           'registry of configurations = the list in harness/src/bin/c16.rs (unregistered ones are listed in the notes)']
ASSUMPTIONS = ['the facts state equations between constants; that a modulus is prime, that r is prime (so that r*G = O and '
               'G != O give order exactly r), and that the affine chord-tangent law is a group law are mathematical '
               'background, not checked here',
               'GENERATOR is only shown to be a quadratic non-residue (what the 2-adic root derivation and sqrt need), '
               'not a generator of the full multiplicative group (needs the factorisation of p-1)']
HYPOTHESES = []


# coqchk (thorough tier): the per-configuration Facts_*.v files are closed facts established by vm_compute over Bignums; the
# independent checker has no VM and re-checks them by lazy reduction (> 50 minutes, measured), so it is pointed at the
# generic part of the package (the check functions, their specifications and the model specs) instead; the Facts files are
# checked by the coqc kernel (vm_compute) on every run and their assumptions (Uint63 primitives only) by Print Assumptions.
COQCHK_MODULES = ['V.C16.ConfigChecks', 'V.C16.ConfigSpecs', 'V.C16.ModelSpecs']
COQCHK_TIMEOUT = 1200
