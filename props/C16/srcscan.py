"""C16 -- cross-check of the dump path against the SOURCE TEXT of /repo.

`c16 dump` prints constants of the *compiled* crates; this module reads the literal constants straight from the
source text (`#[modulus = ".."]`, `#[generator = ".."]`, `MontFp!("..")`, `BigInt!("..")`, limb arrays, booleans,
`FqN::new(..)`, `Affine::new_unchecked(..)`, `IsogenyMap { .. }`, references to other constants) with a small
tokenizer / expression evaluator, and compares them with the dumped records.  A disagreement means the dump
machinery (registry in c16.rs, vf/vp/vlimbs printers, prop.py) is broken -- it is NOT a property violation
(a wrong constant in /repo changes source and compiled crate alike and is caught by the facts).

Nothing here is an oracle for the facts: the only comparison is  literal-in-source == value-in-dump.
Constructs the evaluator does not understand (const fn calls, arithmetic) are skipped and counted.
"""
import re, os, glob

REPO = '/repo'
TEST_CURVE_DIR = {'t_bls12_381': 'bls12_381', 't_bn384': 'bn384_small_two_adicity', 't_mnt4_753': 'mnt4_753',
                  't_mnt6_753': 'mnt6_753', 't_secp256k1': 'secp256k1', 't_ed_on_bls12_381': 'ed_on_bls12_381',
                  't_fp128': None}


class Unresolved(Exception):
    pass


DEGREE = {'Fq': 1, 'Fr': 1, 'Fp': 1, 'Fq2': 2, 'Fp2': 2, 'Fq3': 3, 'Fp3': 3, 'Fq4': 4, 'Fp4': 4, 'Fq6': 6, 'Fp6': 6, 'Fq12': 12, 'Fp12': 12}


class Unit:
    """`T::ZERO` / `T::ONE`: expands to the coordinate vector of the type T"""
    def __init__(self, one, ty):
        self.one, self.ty = one, ty

    def expand(self, default_deg):
        d = DEGREE.get(self.ty, default_deg)
        if d is None:
            raise Unresolved('degree of %s unknown' % self.ty)
        return [1 if self.one else 0] + [0] * (d - 1)


def strip_comments(t):
    t = re.sub(r'/\*.*?\*/', ' ', t, flags=re.S)
    return re.sub(r'//[^\n]*', ' ', t)


TOK = re.compile(r'''\s*(?:
    (?P<str>"[^"]*") |
    (?P<num>0x[0-9a-fA-F_]+|\d[\d_]*)(?:[ui](?:8|16|32|64|128|size))? |
    (?P<id>(?:<[^<>;{}]*(?:<[^<>;{}]*>[^<>;{}]*)*>::)?[A-Za-z_][A-Za-z0-9_]*(?:::(?:<[^<>;{}]*(?:<[^<>;{}]*>[^<>;{}]*)*>|[A-Za-z_][A-Za-z0-9_]*))*) |
    (?P<p>.)
)''', re.X | re.S)


def tokenize(s):
    out = []
    for m in TOK.finditer(s):
        if m.group('str') is not None:
            out.append(('str', m.group('str')[1:-1]))
        elif m.group('num') is not None:
            out.append(('num', m.group('num')))
        elif m.group('id') is not None:
            out.append(('id', m.group('id')))
        elif m.group('p') and m.group('p').strip():
            out.append(('p', m.group('p')))
    return out


def lit(s):
    s = s.replace('_', '').strip()
    neg = s.startswith('-')
    if neg:
        s = s[1:]
    v = int(s, 16) if s.lower().startswith('0x') else int(s, 10)
    return -v if neg else v


class File:
    def __init__(self, path):
        self.path = path
        self.text = strip_comments(open(path).read())
        self.consts = {}        # (trait or None, type or None, NAME) -> token list of the initialiser
        self.attrs = []         # prime-field derive attributes: dict per struct
        self._scan()

    def _scan(self):
        t = self.text
        # impl blocks
        spans = []
        for m in re.finditer(r'\bimpl\b(?:\s*<[^>{]*>)?\s+([\w:]+)(?:\s*<[^{]*?>)?\s+for\s+([\w:]+)(?:\s*<[^{]*?>)?\s*(?:where[^{]*)?\{', t):
            depth, i = 1, m.end()
            while i < len(t) and depth:
                if t[i] == '{':
                    depth += 1
                elif t[i] == '}':
                    depth -= 1
                i += 1
            spans.append((m.end(), i, m.group(1).split('::')[-1], m.group(2).split('::')[-1]))
        for m in re.finditer(r'\bconst\s+([A-Za-z_]\w*)\s*:', t):
            name = m.group(1)
            # initialiser: first '=' after the type, up to ';' at bracket depth 0
            i = m.end()
            depth = 0
            while i < len(t):
                ch = t[i]
                if ch in '<([':
                    depth += 1
                elif ch in '>)]':
                    depth -= 1
                elif ch == '=' and depth <= 0 and t[i + 1] not in '=>':
                    break
                elif ch in ';{' and depth <= 0:
                    i = -1
                    break
                i += 1
            if i < 0 or i >= len(t):
                continue            # declaration without value (trait item)
            j = i + 1
            depth = 0
            while j < len(t):
                ch = t[j]
                if ch in '([{':
                    depth += 1
                elif ch in ')]}':
                    depth -= 1
                elif ch == ';' and depth == 0:
                    break
                j += 1
            ctx = (None, None)
            for (a, b, tr, ty) in spans:
                if a <= m.start() < b:
                    ctx = (tr, ty)
            self.consts.setdefault((ctx[0], ctx[1], name), tokenize(t[i + 1:j]))
        for m in re.finditer(r'((?:#\[\w+\s*=\s*"[^"]*"\]\s*)+)pub\s+struct\s+(\w+)', t):
            d = dict(re.findall(r'#\[(\w+)\s*=\s*"([^"]*)"\]', m.group(1)))
            d['struct'] = m.group(2)
            self.attrs.append(d)


class Crate:
    def __init__(self, srcdir):
        self.dir = srcdir
        self.files = {}
        for f in ([srcdir] if srcdir.endswith('.rs') else sorted(glob.glob(srcdir + '/**/*.rs', recursive=True))):
            if '/constraints/' in f or f.endswith('/tests.rs') or '/tests/' in f:
                continue
            self.files[f] = File(f)
        self.memo = {}

    def find_const(self, name, prefer=None, ctx=None):
        """token list of constant `name`: in file `prefer` first (same impl context first), else unique in crate"""
        cands = []
        order = ([prefer] if prefer is not None else []) + [f for f in self.files.values() if f is not prefer]
        for f in order:
            hits = [(k, v) for k, v in f.consts.items() if k[2] == name]
            if ctx is not None:
                same = [(k, v) for k, v in hits if (k[0], k[1]) == ctx]
                if same:
                    return f, same[0][0], same[0][1]
            top = [(k, v) for k, v in hits if k[0] is None]
            if top:
                return f, top[0][0], top[0][1]
            if hits and f is prefer:
                if len(hits) == 1:
                    return f, hits[0][0], hits[0][1]
            cands += [(f, k, v) for k, v in hits]
        if len(cands) == 1:
            return cands[0]
        raise Unresolved('constant %s: %d candidates' % (name, len(cands)))

    def value(self, f, key, depth=0):
        mk = (f.path, key)
        if mk in self.memo:
            return self.memo[mk]
        if depth > 12:
            raise Unresolved('recursion')
        toks = f.consts[key]
        v, i = self.expr(toks, 0, f, (key[0], key[1]), depth)
        if i != len(toks):
            raise Unresolved('trailing tokens in %s: %s' % (key[2], toks[i:i + 3]))
        self.memo[mk] = v
        return v

    def expr(self, tk, i, f, ctx, depth):
        if i >= len(tk):
            raise Unresolved('empty')
        kind, s = tk[i]
        if kind == 'p' and s == '&':
            return self.expr(tk, i + 1, f, ctx, depth)
        if kind == 'p' and s == '-':
            v, i = self.expr(tk, i + 1, f, ctx, depth)
            if not isinstance(v, int) or isinstance(v, bool):
                raise Unresolved('negation of non-integer')
            return -v, i
        if kind == 'p' and s in '[(':
            close = ']' if s == '[' else ')'
            out, i = [], i + 1
            had_comma = False
            while tk[i] != ('p', close):
                v, i = self.expr(tk, i, f, ctx, depth)
                out.append(v)
                if tk[i] == ('p', ','):
                    had_comma = True
                    i += 1
                elif tk[i] == ('p', ';') and s == '[':
                    n, i = self.expr(tk, i + 1, f, ctx, depth)
                    out = out * n
                elif tk[i] != ('p', close):
                    raise Unresolved('operator %r inside a list' % (tk[i][1],))
            if s == '(' and len(out) == 1 and not had_comma:
                return out[0], i + 1
            return out, i + 1
        if kind == 'str':
            return s, i + 1
        if kind == 'num':
            return lit(s), i + 1
        if kind != 'id':
            raise Unresolved('token %r' % s)
        nxt = tk[i + 1] if i + 1 < len(tk) else ('p', ';')
        last = s.split('::')[-1]
        if nxt == ('p', '!'):
            if last in ('MontFp', 'BigInt') and tk[i + 2] == ('p', '(') and tk[i + 3][0] == 'str' and tk[i + 4] == ('p', ')'):
                return lit(tk[i + 3][1]), i + 5
            raise Unresolved('macro %s!' % last)
        if nxt == ('p', '('):
            if last in ('new', 'new_unchecked'):
                return self._args(tk, i + 1, f, ctx, depth)
            raise Unresolved('call %s(..)' % s)
        if nxt == ('p', '{') and last[:1].isupper():
            d, i = {}, i + 2
            while tk[i] != ('p', '}'):
                if tk[i][0] != 'id' or tk[i + 1] != ('p', ':'):
                    raise Unresolved('struct literal')
                fld = tk[i][1]
                v, i = self.expr(tk, i + 2, f, ctx, depth)
                d[fld] = v
                if tk[i] == ('p', ','):
                    i += 1
            return d, i + 1
        if s in ('true', 'false'):
            return s == 'true', i + 1
        if last in ('ZERO', 'ONE') and '::' in s:
            return Unit(last == 'ONE', s.split('::')[-2]), i + 1
        # reference to another constant
        segs = s.split('::')
        if len(segs) >= 2 and segs[-2] == 'Self':
            hits = [k for k in f.consts if k[1] == ctx[1] and k[2] == last]
            hits = [k for k in hits if k[0] == ctx[0]] or hits
            if len(hits) != 1:
                raise Unresolved('Self::%s: %d candidates' % (last, len(hits)))
            g, key = f, hits[0]
        elif len(segs) >= 2 and segs[-2][:1].isupper():
            mod = segs[-3] if len(segs) >= 3 and segs[-3] not in ('crate', 'super', 'self') else None
            hits = [(g, k) for g in self.files.values() for k in g.consts if k[1] == segs[-2] and k[2] == last]
            if mod:
                hits = [(g, k) for (g, k) in hits if os.path.basename(g.path) == mod + '.rs' or g.path.endswith('/%s/mod.rs' % mod)] or hits
            elif len(hits) > 1:
                # `crate::Config::X`: the type defined at the crate / curves root
                hits = [(g, k) for (g, k) in hits if os.path.basename(g.path) in ('mod.rs', 'lib.rs', 'pairing.rs')] or hits
            if len(hits) != 1:
                raise Unresolved('%s: %d candidates' % (s, len(hits)))
            g, key = hits[0]
        else:
            g, key, _ = self.find_const(last, prefer=f, ctx=ctx if '::' not in s else None)
        if (g.path, key) == (f.path, None):
            raise Unresolved('self reference')
        v = self.value(g, key, depth + 1)
        i += 1
        while i + 2 < len(tk) and tk[i] == ('p', '[') and tk[i + 1][0] == 'num' and tk[i + 2] == ('p', ']'):
            v = v[lit(tk[i + 1][1])]
            i += 3
        return v, i

    def _args(self, tk, i, f, ctx, depth):
        v, j = self.expr(tk, i, f, ctx, depth)          # parses the parenthesised list
        return (v if isinstance(v, list) else [v]), j


def flat(v, deg=None):
    if isinstance(v, (list, tuple)):
        out = []
        for x in v:
            out += flat(x, deg)
        return out
    if isinstance(v, Unit):
        return v.expand(deg)
    return [v]


def limbs_val(v):
    return sum(x << (64 * i) for i, x in enumerate(flat(v)))


def norm(v, m, deg=None):
    return [(x % m) if (isinstance(x, int) and not isinstance(x, bool) and m) else x for x in flat(v, deg)]


def crate_dir(crate, repo=REPO):
    if crate.startswith('t_'):
        d = TEST_CURVE_DIR.get(crate)
        return repo + '/test-curves/src/' + (d if d else crate[2:] + '.rs')
    return repo + '/curves/%s/src' % crate


def registry(c16_rs):
    """(fn, type path, crate, record name) for every registry line of harness/src/bin/c16.rs"""
    t = strip_comments(open(c16_rs).read())
    out = []
    for m in re.finditer(r'\b(\w+)::<([\w:]+)>\(\s*"(\w+)",\s*"(\w+)"', t):
        out.append((m.group(1), m.group(2), m.group(3), m.group(4)))
    for m in re.finditer(r'\(\s*"(\w+)",\s*"(\w+)",\s*([\w:]+)\s*\)', t):
        out.append(('prime', m.group(3), m.group(1), m.group(2)))
    return out


# trait / constant -> dump key, per record kind; value transform: 'el' field element(s) mod p, 'r' mod r,
# 'limbs' little-endian u64 array, 'int', 'bool', 'xy' generator
CURVE = [('CurveConfig', 'COFACTOR', 'COFACTOR', 'limbs'), ('CurveConfig', 'COFACTOR_INV', 'COFACTOR_INV', 'r')]
PLAN = {
    'sw': CURVE + [('SWCurveConfig', 'COEFF_A', 'COEFF_A', 'el'), ('SWCurveConfig', 'COEFF_B', 'COEFF_B', 'el'),
                   ('SWCurveConfig', 'GENERATOR', ('GENERATOR_X', 'GENERATOR_Y'), 'xy')],
    'te': CURVE + [('TECurveConfig', 'COEFF_A', 'COEFF_A', 'el'), ('TECurveConfig', 'COEFF_D', 'COEFF_D', 'el'),
                   ('TECurveConfig', 'GENERATOR', ('GENERATOR_X', 'GENERATOR_Y'), 'xy'),
                   ('MontCurveConfig', 'COEFF_A', 'MONT_COEFF_A', 'el'), ('MontCurveConfig', 'COEFF_B', 'MONT_COEFF_B', 'el')],
    'glv': [('GLVConfig', 'ENDO_COEFFS', 'ENDO_COEFFS', 'el'), ('GLVConfig', 'LAMBDA', 'LAMBDA', 'r'),
            ('GLVConfig', 'SCALAR_DECOMP_COEFFS', 'SCALAR_DECOMP_COEFFS', 'signed')],
    'fp2': [('Fp2Config', 'NONRESIDUE', 'NONRESIDUE', 'el'), ('Fp2Config', 'FROBENIUS_COEFF_FP2_C1', 'FROBENIUS_COEFF_C1', 'el')],
    'fp3': [('Fp3Config', 'NONRESIDUE', 'NONRESIDUE', 'el'), ('Fp3Config', 'FROBENIUS_COEFF_FP3_C1', 'FROBENIUS_COEFF_C1', 'el'),
            ('Fp3Config', 'FROBENIUS_COEFF_FP3_C2', 'FROBENIUS_COEFF_C2', 'el'), ('Fp3Config', 'TWO_ADICITY', 'TWO_ADICITY', 'int'),
            ('Fp3Config', 'TRACE_MINUS_ONE_DIV_TWO', 'TRACE_MINUS_ONE_DIV_TWO', 'limbs'),
            ('Fp3Config', 'QUADRATIC_NONRESIDUE_TO_T', 'QUADRATIC_NONRESIDUE_TO_T', 'el')],
    'fp4': [('Fp4Config', 'NONRESIDUE', 'NONRESIDUE', 'el'), ('Fp4Config', 'FROBENIUS_COEFF_FP4_C1', 'FROBENIUS_COEFF_C1', 'el')],
    'fp6_2over3': [('Fp6Config', 'NONRESIDUE', 'NONRESIDUE', 'el'), ('Fp6Config', 'FROBENIUS_COEFF_FP6_C1', 'FROBENIUS_COEFF_C1', 'el')],
    'fp6_3over2': [('Fp6Config', 'NONRESIDUE', 'NONRESIDUE', 'el'), ('Fp6Config', 'FROBENIUS_COEFF_FP6_C1', 'FROBENIUS_COEFF_C1', 'el'),
                   ('Fp6Config', 'FROBENIUS_COEFF_FP6_C2', 'FROBENIUS_COEFF_C2', 'el')],
    'fp12': [('Fp12Config', 'NONRESIDUE', 'NONRESIDUE', 'el'), ('Fp12Config', 'FROBENIUS_COEFF_FP12_C1', 'FROBENIUS_COEFF_C1', 'el')],
    'bls12': [('Bls12Config', 'X', 'X', 'limbs'), ('Bls12Config', 'X_IS_NEGATIVE', 'X_IS_NEGATIVE', 'bool')],
    'bn': [('BnConfig', 'X', 'X', 'limbs'), ('BnConfig', 'X_IS_NEGATIVE', 'X_IS_NEGATIVE', 'bool'),
           ('BnConfig', 'ATE_LOOP_COUNT', 'ATE_LOOP_COUNT', 'ints'), ('BnConfig', 'TWIST_MUL_BY_Q_X', 'TWIST_MUL_BY_Q_X', 'el'),
           ('BnConfig', 'TWIST_MUL_BY_Q_Y', 'TWIST_MUL_BY_Q_Y', 'el')],
    'bw6': [('BW6Config', 'X', 'X', 'int'), ('BW6Config', 'X_IS_NEGATIVE', 'X_IS_NEGATIVE', 'bool'),
            ('BW6Config', 'X_MINUS_1_DIV_3', 'X_MINUS_1_DIV_3', 'int'), ('BW6Config', 'ATE_LOOP_COUNT_1', 'ATE_LOOP_COUNT_1', 'limbs'),
            ('BW6Config', 'ATE_LOOP_COUNT_2', 'ATE_LOOP_COUNT_2', 'ints'), ('BW6Config', 'H_T', 'H_T', 'int'), ('BW6Config', 'H_Y', 'H_Y', 'int'),
            ('BW6Config', 'T_MOD_R_IS_ZERO', 'T_MOD_R_IS_ZERO', 'bool')],
    'mnt4': [('MNT4Config', 'TWIST', 'TWIST', 'el'), ('MNT4Config', 'TWIST_COEFF_A', 'TWIST_COEFF_A', 'el'),
             ('MNT4Config', 'ATE_LOOP_COUNT', 'ATE_LOOP_COUNT', 'ints'), ('MNT4Config', 'ATE_IS_LOOP_COUNT_NEG', 'ATE_IS_LOOP_COUNT_NEG', 'bool'),
             ('MNT4Config', 'FINAL_EXPONENT_LAST_CHUNK_1', 'FINAL_EXPONENT_LAST_CHUNK_1', 'int'),
             ('MNT4Config', 'FINAL_EXPONENT_LAST_CHUNK_ABS_OF_W0', 'FINAL_EXPONENT_LAST_CHUNK_ABS_OF_W0', 'int'),
             ('MNT4Config', 'FINAL_EXPONENT_LAST_CHUNK_W0_IS_NEG', 'FINAL_EXPONENT_LAST_CHUNK_W0_IS_NEG', 'bool')],
    'swu': [('SWUConfig', 'ZETA', 'ZETA', 'el')],
    'elligator2': [('Elligator2Config', 'Z', 'Z', 'el'), ('Elligator2Config', 'ONE_OVER_COEFF_B_SQUARE', 'ONE_OVER_COEFF_B_SQUARE', 'el'),
                   ('Elligator2Config', 'COEFF_A_OVER_COEFF_B', 'COEFF_A_OVER_COEFF_B', 'el')],
    'wb': [('WBConfig', 'ISOGENY_MAP', ('X_NUM', 'X_DEN', 'Y_NUM', 'Y_DEN'), 'iso')],
}
PLAN['mnt6'] = [(('MNT6Config',) + x[1:]) for x in PLAN['mnt4']]
FN_KIND = {'sw': 'sw', 'te': 'te', 'glv': 'glv', 'fp2': 'fp2', 'fp3': 'fp3', 'ext': None, 'bls12': 'bls12', 'bn': 'bn', 'bw6': 'bw6',
           'mnt4': 'mnt4', 'mnt6': 'mnt6', 'wb': 'wb', 'ell2': 'elligator2'}


def scan(recs, c16_rs='/verif/harness/src/bin/c16.rs', repo=REPO):
    """returns (compared, skipped, mismatches): lists of strings"""
    by = {(r['crate'], r['name']): r for r in recs if r.get('kind') != 'id'}
    crates = {}

    def crate_of(c):
        if c not in crates:
            d = crate_dir(c, repo)
            crates[c] = Crate(d) if os.path.exists(d) else None
        return crates[c]

    compared, skipped, bad = [], [], []

    def prime_mod(c, rec):
        """characteristic of the record's base field and its scalar modulus"""
        p = rec.get('P')
        if p is None and 'curve' in rec:
            p = by[(c, rec['curve'])].get('P')
        if p is None and 'domain' in rec:
            p = by[(c, rec['domain'])].get('P')
        if p is None and (c, 'fq') in by:
            p = by[(c, 'fq')]['MODULUS']
        r = rec.get('R_ORDER')
        if r is None and 'curve' in rec:
            r = by[(c, rec['curve'])].get('R_ORDER')
        if r is None and (c, 'fr') in by:
            r = by[(c, 'fr')]['MODULUS']
        return p, r

    def cmp(tag, src, dumped):
        if src == dumped:
            compared.append(tag)
        else:
            bad.append('%s: source text says %s, compiled crate dumped %s' % (tag, str(src)[:200], str(dumped)[:200]))

    # ---- A. prime fields: derive attributes
    for (fn, ty, c, n) in registry(c16_rs):
        if fn != 'prime':
            continue
        cr = crate_of(c)
        rec = by.get((c, n))
        if cr is None or rec is None:
            continue
        stem = ty.split('::')[-1]           # Fq / Fr
        hit = None
        for f in cr.files.values():
            base = os.path.basename(f.path)
            for a in f.attrs:
                if 'modulus' in a and a['struct'] in (stem + 'Config', stem + 'Parameters') and \
                        (base in ('%s.rs' % n, 'fp128.rs') or len([1 for g in cr.files.values() for b in g.attrs if b['struct'] == a['struct']]) == 1):
                    hit = a
        if hit is None:
            skipped.append('%s/%s: no #[modulus] attribute in this crate (field re-exported from another crate)' % (c, n))
            continue
        p = rec['MODULUS']
        cmp('%s/%s #[modulus]' % (c, n), lit(hit['modulus']), p)
        if 'generator' in hit:
            cmp('%s/%s #[generator]' % (c, n), lit(hit['generator']) % p, rec['GENERATOR'])
        if 'small_subgroup_base' in hit:
            cmp('%s/%s #[small_subgroup_base]' % (c, n), lit(hit['small_subgroup_base']), rec['SMALL_SUBGROUP_BASE'])
        if 'small_subgroup_power' in hit:
            cmp('%s/%s #[small_subgroup_power]' % (c, n), lit(hit['small_subgroup_power']), rec['SMALL_SUBGROUP_BASE_ADICITY'])

    # ---- B. named constants of the registered configurations
    for (fn, ty, c, n) in registry(c16_rs):
        if fn == 'prime' or fn not in FN_KIND:
            continue
        rec = by.get((c, n))
        cr = crate_of(c)
        if rec is None or cr is None:
            continue
        kind = rec['kind']
        plan = PLAN.get(kind)
        if not plan:
            continue
        segs = ty.split('::')
        ident = segs[-1]
        if kind.startswith('fp') and not ident.endswith('Config'):
            ident += 'Config'
        hint = segs[-2] if len(segs) >= 3 and not segs[-2].startswith('ark_') and segs[-2] != 'tc' else None
        if c.startswith('t_') and hint == TEST_CURVE_DIR.get(c):
            hint = None
        p, r = prime_mod(c, rec)
        for (trait, cname, dkey, how) in plan:
            tag = '%s/%s %s::%s' % (c, n, trait, cname)
            # the impl block
            files = [f for f in cr.files.values()
                     if any(k[0] == trait and k[1] == ident and k[2] == cname for k in f.consts)]
            if hint:
                hf = [f for f in files if os.path.basename(f.path) == hint + '.rs' or f.path.endswith('/%s/mod.rs' % hint)]
                files = hf or files
            if len(files) != 1:
                skipped.append('%s: %d impl blocks found' % (tag, len(files)))
                continue
            f = files[0]
            try:
                v = cr.value(f, (trait, ident, cname))
            except (Unresolved, IndexError, KeyError, ValueError) as ex:
                skipped.append('%s: not a literal (%s)' % (tag, ex))
                continue
            try:
                if how == 'el':
                    cmp(tag, norm(v, p, rec.get('BASE_DEGREE')), flat(rec[dkey]))
                elif how == 'r':
                    cmp(tag, norm(v, r, 1), flat(rec[dkey]))
                elif how == 'limbs':
                    cmp(tag, limbs_val(v), rec[dkey])
                elif how in ('int', 'bool'):
                    cmp(tag, v, rec[dkey])
                elif how == 'ints':
                    cmp(tag, flat(v), flat(rec[dkey]))
                elif how == 'signed':
                    cmp(tag, [(x if s else -x) for (s, x) in v], rec[dkey])
                elif how == 'xy':
                    cmp(tag, norm(v, p, rec.get('BASE_DEGREE')), flat(rec[dkey[0]]) + flat(rec[dkey[1]]))
                elif how == 'iso':
                    for fld, k in zip(('x_map_numerator', 'x_map_denominator', 'y_map_numerator', 'y_map_denominator'), dkey):
                        cmp(tag + '.' + fld, norm(v[fld], p), flat(rec[k]))
            except (TypeError, KeyError, ValueError, Unresolved) as ex:
                skipped.append('%s: shape not understood (%r)' % (tag, ex))
    return compared, skipped, bad


def private_psi(crate, p, repo=REPO):
    """P_POWER_ENDOMORPHISM_COEFF_0/1 and DOUBLE_P_POWER_ENDOMORPHISM_COEFF_0 of curves/<crate>/src/curves/g2.rs:
    private constants, so they cannot be dumped from the compiled crate; read from the source text"""
    cr = Crate(crate_dir(crate, repo))
    f = [g for g in cr.files.values() if g.path.endswith('/curves/g2.rs')][0]
    out = {}
    for key, name in (('COEFF_0', 'P_POWER_ENDOMORPHISM_COEFF_0'), ('COEFF_1', 'P_POWER_ENDOMORPHISM_COEFF_1'),
                      ('DOUBLE_COEFF_0', 'DOUBLE_P_POWER_ENDOMORPHISM_COEFF_0')):
        out[key] = norm(cr.value(f, (None, None, name)), p)
    return out


if __name__ == '__main__':
    import json, sys
    recs = json.load(open('/verif/props/C16/dump.json'))
    comp, skip, bad = scan(recs)
    print('compared %d, skipped %d, mismatches %d' % (len(comp), len(skip), len(bad)))
    for s in skip:
        print('  skip', s)
    for b in bad:
        print('  BAD ', b)
