"""C17: multilinear extensions (dense, sparse) and multivariate sparse polynomials.
Case generator + property metadata.  Every case: args[0] = [p] (prime modulus)."""
import sys, itertools
sys.path.insert(0, '/verif/lib')

OPS = {
    'dense_from_vec': 1, 'dense_eval': 2, 'dense_fix': 3, 'dense_relabel': 4, 'dense_concat': 5,
    'dense_add': 6, 'dense_sub': 7, 'dense_neg': 8, 'dense_scale': 9, 'dense_scale_eval': 10,
    'dense_add_scaled': 11, 'dense_index': 12,
    'sparse_from': 20, 'sparse_eval': 21, 'sparse_fix': 22, 'sparse_relabel': 23, 'sparse_to_dense': 24,
    'sparse_add': 25, 'sparse_sub': 26, 'sparse_neg': 27, 'sparse_add_scaled': 28, 'sparse_index': 29,
    'sparse_relabel_wide': 30, 'sparse_eval_wide': 31,
    'term_new': 40, 'term_cmp': 41, 'term_eval': 42, 'mv_from': 43, 'mv_eval': 44, 'mv_add': 45,
    'mv_sub': 46, 'mv_neg': 47, 'mv_add_scaled': 48,
}

FR = 0x73eda753299d7d483339d80809a1d80553bda402fffe5bfeffffffff00000001
FIELDS = [3, 5, 97, FR]
NMAX = 6


# ---------------------------------------------------------------------------------------------
# Special-case branches of the anchored Rust code and the generated class that executes each
# (op / class prefix).  Every line below is hit by the quick tier.
#
# dense.rs
#   from_evaluations_vec  assert_eq!(len, 1 << nv)            dense_from_vec  from_vec/wrong_len
#   relabel_in_place      a > b => swap                        dense_relabel   all triples with a > b
#                         a == b || k == 0 => return           dense_relabel   relabel/noop
#                         assert!(b + k <= nv)                 dense_relabel   relabel/out_of_range
#                         assert!(a + k <= b)                  dense_relabel   relabel/overlap
#                         b + k == nv (top window), inner      dense_relabel   relabel/top_window, relabel/inner
#   concat                empty list / pad to next pow2 / exact power of two / mixed sizes
#                                                              dense_concat    concat/*/cnt0, *_padded, *_pow2, mixed_arity
#   fix_variables         assert!(len <= nv)                   dense_fix       fix/too_long
#                         dim = 0 (loop not entered), 0<dim<n, dim = n      fix/empty, fix/partial, fix/full
#   evaluate              assert!(len == nv)                   dense_eval      eval/len_bad ; nv = 0: exh/F3/n0
#   Index                 slice bound                          dense_index     index/oob
#   Add                   rhs.is_zero() / self.is_zero()       dense_add..     ops/zero_repr, lhs_zero_repr, both_zero_repr
#                         assert_eq!(nv)                       dense_add..     ops/arity_mismatch, nonzero_constant_vs_n
#                         is_zero needs nv == 0 AND ev[0] == 0 (0-var non-zero constant is not zero)
#   Sub = a + (-b), Neg, AddAssign (f, q)                      dense_sub, dense_neg, dense_add_scaled (f in 0, 1, -1, 2, random)
#   Mul<&F>               scalar.is_zero()  => zero()          dense_scale_eval scalar_zero/*   (F10, KNOWN FINDING), n = 0: scalar_zero_n0
#                         scalar.is_one()   => clone           dense_scale(_eval) */scalar_one
#                         otherwise map                        */scalar_e-1, e2, er
# sparse.rs
#   from_evaluations      assert!(i < 1 << nv)                 sparse_from     sfrom/index_out_of_range
#                         duplicates: later wins               sparse_*        sdup, srand
#   to_evaluations (F08 fixed), to_dense_multilinear_extension sparse_from (table output of every sparse result), sparse_to_dense
#   precompute_eq         dim = 1 (no doubling), dim > 1       sparse_fix/eval one_batch with window 1 / window > 1
#   fix_variables         assert!(dim <= nv)                   sparse_fix      sfix/too_long
#                         window = log2(len) == 0 => 1         s0, s1 entries
#                         point.len() > window (several rounds) / <= window / empty point
#                                                              sfix/multi_batch, one_batch, empty
#   relabel               swap a b; assert both windows <= nv (before the early return!); a == b || k == 0;
#                         assert!(a + k <= b); top window (F09 fixed)      sparse_relabel  relabel/*
#   Index                 present / absent key                 sparse_index    sindex/present, absent
#   evaluate              assert!(len == nv)                   sparse_eval     seval/len_bad
#   Add                   self.is_zero() / rhs.is_zero()       sparse_add..    sops/lhs_zero_repr, zero_repr, both_zero_repr
#                         assert_eq!(nv)                       sops/arity_mismatch, constant_vs_n, (empty_n is NOT zero(): n vars, no entry)
#                         merge + filter zero sums             sops/negated (everything cancels), equal
#   AddAssign (f, q)      assert only if both non-zero         sops_scaled/*
# multivariate/mod.rs, sparse.rs
#   SparseTerm::new       retain pow != 0                      term_new/all_pow0, mixed
#                         len > 1: sort + combine / len <= 1   term_new/repeated_var, unordered, mixed / single, const
#   partial_cmp           degree differs / same variable, power differs / variable differs / Equal (also prefix, permuted)
#                                                              term_cmp/exh (all 20 x 20 canonical terms of degree <= 3 in 3 variables), term_cmp/*
#   from_coefficients_vec sort; assert var < nv; merge equal neighbours; remove zeros
#                                                              mv_from/...var_out_of_range, dup_term, cancel, zero_coeff, empty
#   evaluate              assert!(len >= nv); is_zero() shortcut; sum        mv_eval/short_point, long_point, exact (+ empty / cancel)
#   Add                   Less / Equal / Greater / one side exhausted; retain non-zero; max(num_vars)
#                                                              mv_ops/same_nv, other_nv, negated, equal
#   AddAssign (f, q), Neg, Sub, degree (max, 0 for empty)      mv_ops_scaled/*, mv_neg, mv_ops (mv_sub); degree is part of every polynomial output
# ---------------------------------------------------------------------------------------------


def field(rng):
    return rng.choice([3, 5, 97, FR, FR])


def felt(rng, p):
    """one field element with its class"""
    k = rng.randrange(8)
    if k == 0:
        return 0, 'e0'
    if k == 1:
        return 1, 'e1'
    if k == 2:
        return p - 1, 'e-1'
    if k == 3:
        return 2 % p, 'e2'
    return rng.randrange(p), 'er'


def table(rng, p, n):
    m = 1 << n
    k = rng.randrange(9)
    if k == 0:
        return [0] * m, 'tzero'
    if k == 1:
        return [1] * m, 'tones'
    if k == 2:
        t = [0] * m
        t[rng.randrange(m)] = rng.randrange(1, p)
        return t, 'tsingle'
    if k == 3:
        return [i % p for i in range(m)], 'tindex'
    if k == 4:
        return [rng.choice([0, 0, 0, rng.randrange(p)]) for _ in range(m)], 'tsparse'
    if k == 5:
        t = [0] * m
        t[m - 1] = rng.randrange(1, p)          # only the all-ones corner
        return t, 'tlast'
    return [rng.randrange(p) for _ in range(m)], 'trand'


def point(rng, p, n):
    k = rng.randrange(7)
    if k == 0:
        return [rng.randrange(2) for _ in range(n)], 'pbool'
    if k == 1:
        return [rng.choice([0, 1, rng.randrange(p)]) for _ in range(n)], 'pmixed'
    if k == 2:
        return [0] * n, 'pzero'
    if k == 3:
        return [1] * n, 'pone'
    if k == 4:
        return [p - 1] * n, 'p-1'
    return [rng.randrange(p) for _ in range(n)], 'prand'


def sparse_entries(rng, p, n):
    """(indices, values, class): 0, 1, 2, 2^n entries, duplicates (later wins), explicit zeros"""
    m = 1 << n
    k = rng.randrange(9)
    if k == 0:
        return [], [], 's0'
    if k == 1:
        return [rng.randrange(m)], [rng.randrange(1, p)], 's1'
    if k == 2:
        return [rng.randrange(m), rng.randrange(m)], [rng.randrange(1, p), rng.randrange(1, p)], 's2'
    if k == 3:
        idx = list(range(m))
        rng.shuffle(idx)
        return idx, [rng.randrange(p) for _ in idx], 'sfull'
    if k == 4:
        i = rng.randrange(m)
        return [i, rng.randrange(m), i], [rng.randrange(p), rng.randrange(p), rng.randrange(1, p)], 'sdup'
    if k == 5:
        c = rng.randrange(1, m + 1)
        idx = [rng.randrange(m) for _ in range(c)]
        return idx, [rng.choice([0, rng.randrange(p)]) for _ in idx], 'szeros'
    if k == 6:
        return [m - 1, 0], [rng.randrange(1, p), rng.randrange(1, p)], 'scorners'
    c = rng.randrange(1, 2 * m + 1)
    idx = [rng.randrange(m) for _ in range(c)]
    return idx, [rng.randrange(p) for _ in idx], 'srand'


def table_to_sparse(rng, t):
    idx = [i for i, v in enumerate(t) if v != 0]
    rng.shuffle(idx)
    return idx, [t[i] for i in idx]


def raw_term(rng, nv, allow_bad=False):
    """(vars, pows, class) -- unordered, repeated variables, zero powers"""
    k = rng.randrange(8)
    if nv == 0 or k == 0:
        return [], [], 'const'
    if k == 1:
        return [rng.randrange(nv)], [rng.randrange(0, 4)], 'single'
    if k == 2:
        v = rng.randrange(nv)
        return [v, v, v][:rng.randrange(2, 4)], [rng.randrange(0, 4) for _ in range(3)][:2] + [1], 'repeated_var'
    if k == 3:
        vs = list(range(nv))
        rng.shuffle(vs)
        vs = vs[:rng.randrange(1, nv + 1)]
        return vs, [rng.randrange(1, 4) for _ in vs], 'unordered'
    if k == 4:
        vs = [rng.randrange(nv) for _ in range(rng.randrange(1, 5))]
        return vs, [0 for _ in vs], 'all_pow0'
    if k == 5 and allow_bad:
        return [nv + rng.randrange(2)], [rng.choice([0, 1, 2])], 'var_out_of_range'
    vs = [rng.randrange(nv) for _ in range(rng.randrange(1, 6))]
    return vs, [rng.randrange(0, 5) for _ in vs], 'mixed'


def term_list(rng, p, nv, allow_bad=False):
    """(coeffs, lens, vars, pows, class): duplicates, zero coefficients, cancellation"""
    cnt = rng.choice([0, 1, 2, 3, 4, 6, 9])
    terms = []
    cls = set()
    for _ in range(cnt):
        vs, ps, c = raw_term(rng, nv, allow_bad and rng.randrange(6) == 0)
        co, cc = felt(rng, p)
        terms.append((co, vs, ps))
        if c in ('repeated_var', 'all_pow0', 'var_out_of_range'):
            cls.add(c)
        r = rng.randrange(6)
        if r == 0:
            # the same monomial written differently (permuted, split powers, extra power-0 factor)
            z = list(zip(vs, ps))
            rng.shuffle(z)
            if nv > 0:
                z.append((rng.randrange(nv), 0))
            terms.append((rng.randrange(p), [v for v, _ in z], [q for _, q in z]))
            cls.add('dup_term')
        elif r == 1:
            terms.append(((p - co) % p, vs, ps))
            cls.add('cancel')
    rng.shuffle(terms)
    coeffs = [t[0] for t in terms]
    lens = [len(t[1]) for t in terms]
    vars_ = [v for t in terms for v in t[1]]
    pows = [q for t in terms for q in t[2]]
    if 0 in coeffs:
        cls.add('zero_coeff')
    if not terms:
        cls.add('empty')
    return coeffs, lens, vars_, pows, '+'.join(sorted(cls)) or 'plain'


def all_tables(p, n):
    return itertools.product(range(p), repeat=1 << n)


def gen(rng, tier):
    scale = 1 if tier == 'quick' else 25
    nmax = NMAX if tier == 'quick' else 8            # thorough: up to 8 variables (256-entry tables)

    # ---- exhaustive over F_3 (and F_5 for n <= 1): all tables, all points, n <= 2 ----------
    for p, emax in ((3, 2), (5, 1)):
        for n in range(emax + 1):
            for t in all_tables(p, n):
                t = list(t)
                idx = [i for i, v in enumerate(t) if v != 0]
                vals = [t[i] for i in idx]
                for x in itertools.product(range(p), repeat=n):
                    yield 'dense_eval', [[p], [n], t, list(x)], 'exh/F%d/n%d' % (p, n)
                    yield 'sparse_eval', [[p], [n], idx, vals, list(x)], 'exh/F%d/n%d' % (p, n)
                for d in range(n + 1):                       # every partial point of every length 0..n
                    for x in itertools.product(range(p), repeat=d):
                        yield 'dense_fix', [[p], [n], t, list(x)], 'exh/F%d/n%d/dim%d' % (p, n, d)
                        if p == 3:
                            yield 'sparse_fix', [[p], [n], idx, vals, list(x)], 'exh/F%d/n%d/dim%d' % (p, n, d)
    # exhaustive scaling / negation / addition over F_3, n <= 1 (n = 2 sampled below)
    for n in range(2):
        for t in all_tables(3, n):
            for s in range(3):
                if s == 0 and n >= 1:
                    continue                                  # DEFECT F10: see dense_scale_eval below
                yield 'dense_scale', [[3], [n], list(t), [s]], 'exh/scale'
            for u in all_tables(3, n):
                yield 'dense_add', [[3], [n], list(t), [n], list(u)], 'exh/add'
                yield 'dense_sub', [[3], [n], list(t), [n], list(u)], 'exh/sub'

    # ---- every relabel window (a, b, k), incl. swapped a > b, k = 0, a = b, top window,
    #      overlapping and out-of-range windows (both asserts of both implementations) ------
    for n in range(nmax + 1):
        for a in range(n + 2):
            for b in range(n + 2):
                for k in range(n + 2):
                    lo, hi = min(a, b), max(a, b)
                    if lo == hi or k == 0:
                        cls = 'relabel/noop'                  # dense: early return; sparse: after its assert
                    elif hi + k > n:
                        cls = 'relabel/out_of_range'          # assert "invalid relabel argument"
                    elif lo + k > hi:
                        cls = 'relabel/overlap'               # assert "overlapped swap window"
                    elif hi + k == n:
                        cls = 'relabel/top_window'            # F09 (fixed): window ends at the last variable
                    else:
                        cls = 'relabel/inner'
                    if cls in ('relabel/out_of_range', 'relabel/overlap', 'relabel/noop') and rng.randrange(3) and tier == 'quick':
                        continue
                    p = field(rng)
                    t, tc = table(rng, p, n)
                    if cls in ('relabel/top_window', 'relabel/inner'):
                        for _ in range(2 if tier == 'quick' else 6):      # more tables for the valid windows
                            q = field(rng)
                            t2 = [rng.randrange(q) for _ in range(1 << n)]
                            x, pc = point(rng, q, n)
                            yield 'dense_relabel', [[q], [n], t2, [a, b, k]], cls + '/trand'
                            i2, v2 = table_to_sparse(rng, t2)
                            yield 'sparse_relabel', [[q], [n], i2, v2, [a, b, k]], cls + '/sfromtable'
                    yield 'dense_relabel', [[p], [n], t, [a, b, k]], cls + '/' + tc
                    if rng.randrange(2):
                        idx, vals = table_to_sparse(rng, t)
                        sc = 'sfromtable'
                    else:
                        idx, vals, sc = sparse_entries(rng, p, n)
                    yield 'sparse_relabel', [[p], [n], idx, vals, [a, b, k]], cls + '/' + sc

    # ---- WIDE sparse extensions (33..63 variables, a handful of entries): hypercube indices no longer fit in 32 bits --
    # relabel windows that end above bit 32 (b + k > 32), entries whose index has bits set above bit 31, evaluation on such
    # tables (a dense table of that arity cannot exist, the sparse form can).  Ops 30 / 31 print stored entries only.
    for _ in range(60 * scale):
        p = rng.choice([97, FR])
        n = rng.choice([33, 34, 40, 48, 63])
        cnt = rng.randrange(1, 6)
        idx = [rng.choice([(1 << n) - 1, 1 << (n - 1), (1 << 32) | rng.randrange(1 << 32), rng.randrange(1 << n),
                           rng.randrange(1 << 32) << (n - 32)]) for _ in range(cnt)]
        vals = [rng.randrange(1, p) for _ in idx]
        k = rng.choice([1, 2, 3, 4])
        b = rng.choice([n - k, 32 - k + 1, 31, rng.randrange(k, n - k + 1)])
        b = max(k, min(b, n - k))
        a = rng.choice([0, b - k, rng.randrange(0, b - k + 1)])
        yield 'sparse_relabel_wide', [[p], [n], idx, vals, [a, b, k]], 'wide/relabel/n%d/%s' % (n, 'crosses32' if b + k > 32 else 'below32')
        x, pc = point(rng, p, n)
        yield 'sparse_eval_wide', [[p], [n], idx, vals, x], 'wide/eval/n%d/%s' % (n, pc)
    # ---- dense: construction, evaluation, fixing, indexing ------------------------------------
    for _ in range(500 * scale):
        p = field(rng)
        n = rng.randrange(nmax + 1)
        t, tc = table(rng, p, n)
        r = rng.randrange(10)
        if r == 0:
            # from_evaluations_vec length assertion: 2^n +- 1, empty, half, double
            bad = rng.choice([t[:-1], t + [1], [], t[:len(t) // 2], t + t])
            yield 'dense_from_vec', [[p], [n], bad], 'from_vec/wrong_len' if len(bad) != len(t) else 'from_vec/ok'
        elif r == 1:
            yield 'dense_from_vec', [[p], [n], t], 'from_vec/' + tc
        elif r == 2:
            i = rng.choice([0, len(t) - 1, len(t), rng.randrange(len(t))])
            yield 'dense_index', [[p], [n], t, [i]], 'index/' + ('oob' if i >= len(t) else 'in')
        elif r == 3:
            # evaluate: point length assertion
            x, pc = point(rng, p, rng.choice([n + 1, max(n - 1, 0)]))
            yield 'dense_eval', [[p], [n], t, x], 'eval/len%s' % ('_ok' if len(x) == n else '_bad')
        elif r <= 6:
            x, pc = point(rng, p, n)
            yield 'dense_eval', [[p], [n], t, x], 'eval/%s/%s' % (tc, pc)
        else:
            # fix_variables: every length 0..n, and n+1 (assert)
            d = rng.choice([0, n, n + 1] + [rng.randrange(n + 1) for _ in range(4)])
            x, pc = point(rng, p, d)
            yield 'dense_fix', [[p], [n], t, x], 'fix/%s/%s' % ('too_long' if d > n else ('full' if d == n else ('empty' if d == 0 else 'partial')), pc)

    # ---- dense operators: + - neg, += (f, q), the zero() representation --------------------
    for _ in range(500 * scale):
        p = field(rng)
        n = rng.randrange(nmax + 1)
        a, ca = table(rng, p, n)
        b, cb = table(rng, p, n)
        na, nb = n, n
        r = rng.randrange(12)
        if r == 0:
            na, a, ca = 0, [0], 'zero_repr'                   # Add: `if self.is_zero() return rhs`
        elif r == 1:
            nb, b, cb = 0, [0], 'zero_repr'                   # Add: `if rhs.is_zero() return self`
        elif r == 2:
            na, a, nb, b, ca, cb = 0, [0], 0, [0], 'zero_repr', 'zero_repr'
        elif r == 3:
            b = [(p - v) % p for v in a]; cb = 'negated'      # cancellation
        elif r == 4:
            b = list(a); cb = 'equal'
        elif r == 5 and n > 0:
            nb = rng.choice([x for x in range(nmax + 1) if x != n and x != 0])
            b, cb = table(rng, p, nb)
            cb = 'arity_mismatch'                             # assert_eq!(num_vars)
        elif r == 6 and n > 0:
            nb, b, cb = 0, [rng.randrange(1, p)], 'nonzero_constant_vs_n'   # 0-variable, not zero: assert
        op = rng.choice(['dense_add', 'dense_sub', 'dense_add_scaled', 'dense_add_scaled'])
        if op == 'dense_add_scaled':
            f, fc = felt(rng, p)
            yield op, [[p], [na], a, [f], [nb], b], 'ops_scaled/%s/f%s' % (cb if ca != 'zero_repr' else 'lhs_zero_repr', fc)
        else:
            yield op, [[p], [na], a, [nb], b], 'ops/%s' % (cb if ca != 'zero_repr' else ('both_zero_repr' if cb == 'zero_repr' else 'lhs_zero_repr'))
    for _ in range(120 * scale):
        p = field(rng)
        n = rng.randrange(nmax + 1)
        a, ca = table(rng, p, n)
        yield 'dense_neg', [[p], [n], a], 'neg/' + ca

    # ---- dense scaling ------------------------------------------------------------------------
    for _ in range(300 * scale):
        p = field(rng)
        n = rng.randrange(nmax + 1)
        a, ca = table(rng, p, n)
        s, sc = felt(rng, p)
        x, pc = point(rng, p, n)
        if s == 0 and n >= 1:
            # DEFECT F10 (known finding): `&p * &0` returns the 0-variable zero(), so evaluating the
            # product at a point of the operand's arity panics; the model returns 0.
            yield 'dense_scale_eval', [[p], [n], a, [s], x], 'scalar_zero/%s' % ca
            continue
        cls = {0: 'scalar_zero_n0', 1: 'scalar_one'}.get(s, 'scalar_' + sc)   # Mul: is_zero / is_one branches
        if rng.randrange(2):
            yield 'dense_scale_eval', [[p], [n], a, [s], x], 'scale_eval/%s/%s' % (cls, pc)
        else:
            yield 'dense_scale', [[p], [n], a, [s]], 'scale/%s/%s' % (cls, ca)

    # ---- dense concat -------------------------------------------------------------------------
    for _ in range(200 * scale):
        p = field(rng)
        cnt = rng.choice([0, 1, 2, 2, 3, 4, 4, 5, 8])
        n = rng.randrange(0, 4)
        mixed = rng.randrange(8) == 0
        nvs, flat = [], []
        for _ in range(cnt):
            m = rng.randrange(0, 4) if mixed else n
            t, _tc = table(rng, p, m)
            nvs.append(m)
            flat += t
        pw = cnt & (cnt - 1) == 0 and cnt > 0
        yield 'dense_concat', [[p], nvs, flat], 'concat/%s/cnt%d%s' % ('mixed_arity' if mixed else 'same_arity', cnt, '_pow2' if pw else '_padded')

    # ---- sparse ---------------------------------------------------------------------------------
    for _ in range(900 * scale):
        p = field(rng)
        n = rng.randrange(nmax + 1)
        if rng.randrange(3) == 0:
            t, tc = table(rng, p, n)
            idx, vals = table_to_sparse(rng, t)
            sc = 'from_' + tc
        else:
            idx, vals, sc = sparse_entries(rng, p, n)
        r = rng.randrange(14)
        if r == 0:
            # index out of range: assert in from_evaluations
            j = rng.randrange(len(idx) + 1)
            yield 'sparse_from', [[p], [n], idx[:j] + [1 << n] + idx[j:], vals[:j] + [1] + vals[j:]], 'sfrom/index_out_of_range'
        elif r == 1:
            yield 'sparse_from', [[p], [n], idx, vals], 'sfrom/' + sc          # to_evaluations (F08, fixed)
        elif r == 2:
            yield 'sparse_to_dense', [[p], [n], idx, vals], 'to_dense/' + sc
        elif r == 3:
            i = rng.choice([0, (1 << n) - 1, rng.randrange(1 << n), (1 << n) + rng.randrange(3)] + idx[:1])
            yield 'sparse_index', [[p], [n], idx, vals, [i]], 'sindex/' + ('present' if i in idx else 'absent')
        elif r == 4:
            x, pc = point(rng, p, rng.choice([n + 1, max(n - 1, 0)]))
            yield 'sparse_eval', [[p], [n], idx, vals, x], 'seval/len%s' % ('_ok' if len(x) == n else '_bad')
        elif r <= 8:
            x, pc = point(rng, p, n)
            yield 'sparse_eval', [[p], [n], idx, vals, x], 'seval/%s/%s' % (sc.split('_')[0], pc)
        elif r <= 11:
            # fix_variables: window = max(1, ceil(log2 #entries)); one batch (dim <= window) and
            # several batches (dim > window); lengths 0, n, n+1 (assert)
            d = rng.choice([0, n, n + 1] + [rng.randrange(n + 1) for _ in range(4)])
            x, pc = point(rng, p, d)
            ne = len(set(idx))
            w = max(1, (ne - 1).bit_length()) if ne > 0 else 1
            yield 'sparse_fix', [[p], [n], idx, vals, x], 'sfix/%s/%s' % (
                'too_long' if d > n else ('empty' if d == 0 else ('one_batch' if d <= w else 'multi_batch')), sc.split('_')[0])
        else:
            yield 'sparse_neg', [[p], [n], idx, vals], 'sneg/' + sc
    for _ in range(500 * scale):
        p = field(rng)
        n = rng.randrange(nmax + 1)
        ia, va, ca = sparse_entries(rng, p, n)
        ib, vb, cb = sparse_entries(rng, p, n)
        na, nb = n, n
        r = rng.randrange(12)
        if r == 0:
            na, ia, va, ca = 0, [], [], 'zero_repr'           # Add: `if self.is_zero() return rhs`
        elif r == 1:
            nb, ib, vb, cb = 0, [], [], 'zero_repr'           # Add: `if rhs.is_zero() return self`
        elif r == 2:
            na, ia, va, nb, ib, vb, ca, cb = 0, [], [], 0, [], [], 'zero_repr', 'zero_repr'
        elif r == 3:
            ib, vb, cb = list(ia), [(p - v) % p for v in va], 'negated'       # all sums cancel: filtered
        elif r == 4:
            ib, vb, cb = list(ia), list(va), 'equal'
        elif r == 5 and n > 0:
            nb = rng.choice([x for x in range(nmax + 1) if x != n and x != 0])
            ib, vb, cb = sparse_entries(rng, p, nb)
            cb = 'arity_mismatch'
        elif r == 6 and n > 0:
            nb, ib, vb, cb = 0, [0], [rng.randrange(p)], 'constant_vs_n'      # 0 variables, non-empty map: not zero()
        elif r == 7 and n > 0:
            ib, vb, cb = [], [], 'empty_n'                    # n variables, no entries: not the zero() repr
        op = rng.choice(['sparse_add', 'sparse_sub', 'sparse_add_scaled'])
        if op == 'sparse_add_scaled':
            f, fc = felt(rng, p)
            yield op, [[p], [na], ia, va, [f], [nb], ib, vb], 'sops_scaled/%s/f%s' % (cb if ca != 'zero_repr' else 'lhs_zero_repr', fc)
        else:
            yield op, [[p], [na], ia, va, [nb], ib, vb], 'sops/%s' % (cb if ca != 'zero_repr' else ('both_zero_repr' if cb == 'zero_repr' else 'lhs_zero_repr'))

    # ---- multivariate terms ---------------------------------------------------------------------
    for _ in range(600 * scale):
        nv = rng.randrange(0, 5)
        vs, ps, c = raw_term(rng, nv)
        r = rng.randrange(3)
        if r == 0:
            yield 'term_new', [[3], vs, ps], 'term_new/' + c
        elif r == 1:
            p = field(rng)
            x, pc = point(rng, p, nv + rng.randrange(2))
            yield 'term_eval', [[p], vs, ps, x], 'term_eval/%s' % c
        else:
            ws, qs, c2 = raw_term(rng, nv)
            k = rng.randrange(4)
            if k == 0:
                z = list(zip(vs, ps)); rng.shuffle(z)
                ws, qs, c2 = [v for v, _ in z], [q for _, q in z], 'permuted'
            elif k == 1 and vs:
                ws, qs, c2 = vs[:-1], ps[:-1], 'prefix'
            yield 'term_cmp', [[3], vs, ps, ws, qs], 'term_cmp/%s/%s' % (c, c2)
    # small exhaustive comparison table: all canonical terms over 3 variables of degree <= 3
    small = []
    for e in itertools.product(range(4), repeat=3):
        if sum(e) <= 3:
            small.append(([0, 1, 2], list(e)))
    for (v1, p1) in small:
        for (v2, p2) in small:
            if tier == 'quick' and rng.randrange(4):
                continue
            yield 'term_cmp', [[3], v1, p1, v2, p2], 'term_cmp/exh'

    # ---- multivariate polynomials -----------------------------------------------------------------
    for _ in range(700 * scale):
        p = field(rng)
        nv = rng.randrange(0, 5)
        co, ln, vs, ps, c = term_list(rng, p, nv, allow_bad=True)
        r = rng.randrange(10)
        if r <= 2:
            yield 'mv_from', [[p], [nv], co, ln, vs, ps], 'mv_from/' + c
        elif r <= 5:
            d = rng.choice([nv, nv, nv, nv + 1, max(nv - 1, 0)])
            x, pc = point(rng, p, d)
            yield 'mv_eval', [[p], [nv], co, ln, vs, ps, x], 'mv_eval/%s/%s' % (
                'short_point' if d < nv else ('long_point' if d > nv else 'exact'), c)
        elif r == 6:
            yield 'mv_neg', [[p], [nv], co, ln, vs, ps], 'mv_neg/' + c
        else:
            nv2 = nv if rng.randrange(3) else rng.randrange(0, 5)
            co2, ln2, vs2, ps2, c2 = term_list(rng, p, nv2)
            k = rng.randrange(5)
            if k == 0 and nv2 == nv:
                co2, ln2, vs2, ps2, c2 = [(p - v) % p for v in co], list(ln), list(vs), list(ps), 'negated'
            elif k == 1 and nv2 == nv:
                co2, ln2, vs2, ps2, c2 = list(co), list(ln), list(vs), list(ps), 'equal'
            op = rng.choice(['mv_add', 'mv_sub', 'mv_add_scaled'])
            if op == 'mv_add_scaled':
                f, fc = felt(rng, p)
                yield op, [[p], [nv], co, ln, vs, ps, [f], [nv2], co2, ln2, vs2, ps2], 'mv_ops_scaled/%s/f%s' % (c2 if c2 in ('negated', 'equal') else ('same_nv' if nv2 == nv else 'other_nv'), fc)
            else:
                yield op, [[p], [nv], co, ln, vs, ps, [nv2], co2, ln2, vs2, ps2], 'mv_ops/%s/%s' % (c2 if c2 in ('negated', 'equal') else ('same_nv' if nv2 == nv else 'other_nv'), c)


def nontrivial(case, out):
    return any(any(x != 0 for x in a) for a in case['args'][2:])


def xcheck_ok(case):
    return True


RULE = ('exhaustive: all tables x all points (and all partial points) over F_3 for n <= 2 and F_5 for n <= 1; '
        'every relabel triple (a, b, k) in [0, n+1]^3 for n = 0..6; structured tables (zero, ones, single, corner, '
        'index-valued, sparse, random) x points (Boolean, mixed, 0, 1, -1, random) x fields F_3, F_5, F_97, '
        'bls12_381 Fr; sparse entry lists with 0, 1, 2, 2^n entries, duplicates, explicit zeros; operand pairs '
        '(zero representation on either side, equal, negated, arity mismatch); term lists with duplicate, '
        'cancelling, zero-coefficient, unordered and repeated-variable terms; non-trivial = some argument after '
        'the arity is non-zero; distinct = distinct case lines')
XCHECK = {'quick': 300, 'thorough': 1500}
TRUSTED = ['Base.Field.ZpOps p on canonical residues is taken as the field Z/p of the theorems (the theorems are '
           'proved for every commutative ring with a decidable equality test; the executable dictionary works on '
           'canonical residues)',
           'Field::pow of ark-ff is modelled by Base.Field.fpow (square-and-multiply), not re-verified here (C01)']
ASSUMPTIONS = ['default features (no `parallel`): cfg_iter!/cfg_into_iter! are the serial iterators',
               'num_vars <= 6 in executed cases, so `1 << num_vars`, index arithmetic and sums of powers never wrap',
               'hashbrown::HashMap iteration order is unobservable: the code only accumulates with += into the maps '
               'and collects them into BTreeMaps; the model iterates in key order',
               'slice::sort_by is a stable sort (documented); modelled by stable insertion sort']
HYPOTHESES = ['Rth : ring_theory zero one add mul sub neg eq  (commutative-ring laws of the coefficient field; '
              'every field_theory provides it through F_R)',
              'eqb_spec : forall a b, feqb a b = true <-> a = b']

# pinned theorems that instantiate this package's abstract-field theorems at the executed ZpOps dictionary
EXTRA_PROP_FILES = ['Bridge2']
