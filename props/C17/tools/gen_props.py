#!/usr/bin/env python3
"""Regenerates coq/Props/C17.v: each theorem's statement is the *printed type* of the proved
lemma (so the pinned statement is complete and exactly what was proved) and its proof is
`exact (@lemma)`.  Run by hand after changing the lemma list; not part of ./check."""
import subprocess, os, re, tempfile, shutil

IMPORTS = ('From V Require Import Base.Field C17.Mle C17.SparseMle C17.MvPoly C17.Spec C17.DenseProofs '
           'C17.SwapBits C17.RelabelProofs C17.ConcatProofs C17.SparseProofs C17.AgreeProofs C17.MvProofs '
           'C17.RelabelEval C17.Instances.\n')

# (theorem name, lemma, one-line meaning)
THMS = [
 ('# dense multilinear extensions', None, None),
 ('C17_mle_eval_is_hypercube_sum', 'd_eval_spec', 'evaluate t x = sum over b in {0,1}^n of t[b] * eq(b, x): every n (incl. 0), table, point'),
 ('C17_dense_eval_wrong_length', 'd_eval_panic', 'evaluate asserts point.len() == num_vars'),
 ('C17_fix_variables_spec', 'd_fix_spec', 'fix_variables on a partial point of any length 0..n: new table = partial hypercube sums'),
 ('C17_fix_variables_too_long', 'd_fix_panic', 'partial point longer than num_vars: assert'),
 ('C17_eval_after_fix', 'd_eval_fix', 'evaluate (fix_variables p pp) y = evaluate p (pp ++ y)'),
 ('C17_from_evaluations_vec', 'd_from_vec_spec', 'accepts exactly tables of length 2^n'),
 ('C17_dense_add_pointwise', 'd_add_spec', 'same arity: table of a + b is the entrywise sum (zero() representation included)'),
 ('C17_dense_sub_pointwise', 'd_sub_spec', ''),
 ('C17_dense_neg_pointwise', 'd_neg_spec', ''),
 ('C17_dense_scaled_add_pointwise', 'd_add_scaled_spec', 'a += (f, b): a_i + f * b_i'),
 ('C17_dense_scale_pointwise', 'd_scale_spec', 'p * s for every scalar s (0 and 1 included) keeps the arity and scales the table'),
 ('C17_dense_add_zero_r', 'd_add_zero_r', 'the special zero() is neutral for any arity'),
 ('C17_dense_add_zero_l', 'd_add_zero_l', ''),
 ('C17_dense_add_eval', 'd_add_eval', 'operators are pointwise at every point (Boolean or not)'),
 ('C17_dense_sub_eval', 'd_sub_eval', ''),
 ('C17_dense_neg_eval', 'd_neg_eval', ''),
 ('C17_dense_scaled_add_eval', 'd_add_scaled_eval', ''),
 ('C17_dense_scale_eval', 'd_scale_eval', ''),
 ('C17_dense_scale_zero_eval', 'd_scale_zero_eval', 'F10 as the property demands: (p * 0)(x) = 0 at every point of the arity of p'),
 ('# swap_bits and relabel', None, None),
 ('C17_swap_bits_testbit', 'swap_bits_testbit', 'bit i of swap_bits x comes from bit sigma(i): the two windows are exchanged, other bits kept'),
 ('C17_swap_bits_involution', 'swap_bits_invol', ''),
 ('C17_swap_bits_range', 'swap_bits_range', 'indices stay below 2^N when the upper window ends at or below N (top window included)'),
 ('C17_dense_relabel_spec', 'd_relabel_spec', "the in-place swap loop yields table'[i] = table[swap_bits i]"),
 ('C17_dense_relabel_eval', 'd_relabel_eval', 'relabel evaluates as the original at the point with the two windows exchanged'),
 ('C17_dense_relabel_noop', 'd_relabel_noop', ''),
 ('C17_dense_relabel_panic', 'd_relabel_panic', 'out-of-range or overlapping windows: assert'),
 ('# concat', None, None),
 ('C17_concat_table', 'd_concat_table', 'tables one after the other, zero-padded to the least power of two'),
 ('C17_concat_spec', 'd_concat_spec', 'f(x, y) = sum_c eq(c, y) * f_c(x)'),
 ('# sparse multilinear extensions', None, None),
 ('C17_eq_table_spec', 'eq_table_spec', 'precompute_eq(g)[b] = eq(b, g)'),
 ('C17_sparse_from_ok', 's_from_ok', ''),
 ('C17_sparse_from_panic_iff', 's_from_panic_iff', 'index out of range: assert'),
 ('C17_sparse_from_later_duplicates_win', 'tuples_to_treemap_lookup', 'lookup in the built map = first hit in the reversed input'),
 ('C17_sparse_to_evaluations', 's_to_evaluations_spec', 'F08 (fixed): every entry is written'),
 ('C17_sparse_to_dense', 's_to_dense_spec', ''),
 ('C17_sparse_eval_is_hypercube_sum', 's_eval_spec', ''),
 ('C17_sparse_eval_wrong_length', 's_eval_panic', ''),
 ('C17_sparse_fix_variables_spec', 's_fix_spec', 'windowed precompute_eq batches = partial hypercube sums, any window'),
 ('C17_sparse_fix_variables_total', 's_fix_total', 'never panics / runs out of fuel inside the domain'),
 ('C17_sparse_fix_variables_too_long', 's_fix_panic', ''),
 ('C17_sparse_add_pointwise', 's_add_spec', ''),
 ('C17_sparse_sub_pointwise', 's_sub_spec', ''),
 ('C17_sparse_neg_pointwise', 's_neg_spec', ''),
 ('C17_sparse_scaled_add_pointwise', 's_add_scaled_spec', ''),
 ('C17_sparse_add_zero_l', 's_add_zero_l', ''),
 ('C17_sparse_add_zero_r', 's_add_zero_r', ''),
 ('C17_sparse_relabel_spec', 'sparse_relabel_spec', 'F09 (fixed): every valid window incl. b + k = num_vars'),
 ('# sparse and dense agree', None, None),
 ('C17_sparse_dense_agree_eval', 'sparse_dense_eval', ''),
 ('C17_sparse_dense_agree_fix', 'sparse_dense_fix', ''),
 ('C17_sparse_dense_agree_add', 'sparse_dense_add', ''),
 ('C17_sparse_dense_agree_sub', 'sparse_dense_sub', ''),
 ('C17_sparse_dense_agree_neg', 'sparse_dense_neg', ''),
 ('C17_sparse_dense_agree_scaled_add', 'sparse_dense_add_scaled', ''),
 ('C17_sparse_dense_agree_relabel', 'sparse_dense_relabel', ''),
 ('# multivariate sparse polynomials', None, None),
 ('C17_term_new_eval', 'term_new_eval', 'SparseTerm::new keeps the value of the raw monomial'),
 ('C17_term_new_canonical', 'term_new_canon', 'variables strictly increasing, powers positive'),
 ('C17_term_order_eq_iff', 't_cmp_eq_iff', 'term order: Equal only for equal canonical terms'),
 ('C17_term_order_antisym', 't_cmp_antisym', ''),
 ('C17_term_order_trans', 't_cmp_trans', ''),
 ('C17_mv_from_terms_spec', 'mv_from_terms_spec', 'from_coefficients_vec on ANY raw term list evaluates to the sum of the raw terms'),
 ('C17_mv_from_terms_canonical', 'p_from_canon', 'result sorted strictly, distinct, no zero coefficient'),
 ('C17_mv_from_terms_panic_iff', 'p_from_panic_iff', 'variable >= num_vars: assert'),
 ('C17_mv_add_eval', 'p_add_eval', ''),
 ('C17_mv_sub_eval', 'p_sub_eval', ''),
 ('C17_mv_neg_eval', 'p_neg_eval', ''),
 ('C17_mv_scaled_add_eval', 'p_add_scaled_eval', ''),
 ('C17_mv_add_canonical', 'p_add_canon', ''),
 ('C17_mv_sub_canonical', 'p_sub_canon', ''),
 ('C17_mv_neg_canonical', 'p_neg_canon', ''),
 ('C17_mv_scaled_add_canonical', 'p_add_scaled_canon', ''),
 ('C17_mv_degree_spec', 'p_degree_spec', ''),
 ('# satisfiability of the hypotheses', None, None),
 ('C17_hypotheses_satisfiable_ring', 'ZOps_ring', ''),
 ('C17_hypotheses_satisfiable_eqb', 'ZOps_eqb', ''),
 ('C17_every_field_qualifies', 'field_is_ring', ''),
]

EXAMPLES = r'''
(* ---- concrete instances (hypotheses are satisfiable; doc examples of the Rust API) ---- *)
Example C17_ex_eval : d_eval ZOps (mkD 2 [2; 3; 2; 6]) [1; 17] = Ok 54.
Proof. vm_compute. reflexivity. Qed.
Example C17_ex_fix : d_fix ZOps (mkD 2 [0; 1; 2; 6]) [5] = Ok (mkD 1 [5; 22]).
Proof. vm_compute. reflexivity. Qed.
Example C17_ex_wf : d_wf (mkD 2 [2; 3; 2; 6]).
Proof. vm_compute. reflexivity. Qed.
Example C17_ex_swap_bits : swap_bits 11 0 2 2 = 14.
Proof. vm_compute. reflexivity. Qed.
Example C17_ex_relabel : d_relabel ZOps (mkD 3 [0; 1; 2; 3; 4; 5; 6; 7]) 2 0 1 = Ok (mkD 3 [0; 4; 2; 6; 1; 5; 3; 7]).
Proof. vm_compute. reflexivity. Qed.
Example C17_ex_scale_zero : d_eval ZOps (d_scale ZOps (mkD 1 [3; 4]) 0) [9] = Ok 0.
Proof. vm_compute. reflexivity. Qed.
Example C17_ex_sparse_eval :
  rbind (s_from 2 [(3%nat, 6); (0%nat, 2); (1%nat, 3); (2%nat, 2)]) (fun s => s_eval ZOps s [1; 17]) = Ok 54.
Proof. vm_compute. reflexivity. Qed.
Example C17_ex_sparse_relabel_top_window :
  rbind (s_from 2 [(1%nat, 5)]) (fun s => s_relabel s 0 1 1) = Ok (mkS 2 [(2%nat, 5)]).
Proof. vm_compute. reflexivity. Qed.
Example C17_ex_term_new : term_new [(2%nat, 1); (1%nat, 2); (1%nat, 3); (3%nat, 0)] = [(1%nat, 5); (2%nat, 1)].
Proof. vm_compute. reflexivity. Qed.
Example C17_ex_mv_from :
  p_from ZOps 2 [(3, term_new [(1%nat, 1); (0%nat, 1)]); (0, term_new [(0%nat, 2)]); (4, term_new [(0%nat, 1); (1%nat, 1); (1%nat, 0)]); (5, term_new [])]
  = Ok (mkP 2 [(5, []); (7, [(0%nat, 1); (1%nat, 1)])]).
Proof. vm_compute. reflexivity. Qed.
Example C17_ex_mv_eval :
  rbind (p_from ZOps 2 [(3, term_new [(1%nat, 1); (0%nat, 1)]); (4, term_new [(0%nat, 1); (1%nat, 1)]); (5, term_new [])])
        (fun q => p_eval ZOps q [2; 3]) = Ok 47.
Proof. vm_compute. reflexivity. Qed.
'''


def main():
    d = tempfile.mkdtemp(prefix='c17props_', dir='/verif/build')
    try:
        names = [(n, l) for (n, l, _) in THMS if l]
        src = IMPORTS + 'Set Printing Width 110.\n' + ''.join(
            'Check @%s.\n' % l for _, l in names)
        open(d + '/q.v', 'w').write(src)
        out = subprocess.run(['coqc', '-Q', '/verif/coq', 'V', 'q.v'], cwd=d, capture_output=True, text=True)
        if out.returncode != 0:
            raise SystemExit(out.stdout + out.stderr)
        # split the output into blocks "@name\n     : type"
        blocks = re.split(r'^(?=\S)', out.stdout, flags=re.M)
        types = {}
        for b in blocks:
            b = b.rstrip()
            if not b:
                continue
            m = re.match(r'^@?([A-Za-z0-9_\']+)\s*\n?\s*:\s*(.*)$', b, re.S)
            if m:
                types[m.group(1)] = m.group(2)
        res = ['(* C17 -- property theorems only: pinned statements, each closed by `exact`.\n'
               '   GENERATED by props/C17/tools/gen_props.py: every statement is the printed type of the\n'
               '   lemma it is closed with, i.e. exactly what was proved (hypotheses: the commutative-ring\n'
               '   laws of the coefficient field and a correct equality test, nothing about the code). *)\n',
               IMPORTS, '']
        for (n, l, c) in THMS:
            if l is None:
                res.append('\n(* ===== %s ===== *)' % n.lstrip('# '))
                continue
            t = types[l]
            t = '\n'.join('  ' + x.strip() if i else x.strip() for i, x in enumerate(t.split('\n')))
            if c:
                res.append('(* %s *)' % c)
            res.append('Theorem %s :\n  %s.\nProof. exact (@%s). Qed.\n' % (n, t, l))
        res.append(EXAMPLES)
        open('/verif/coq/Props/C17.v', 'w').write('\n'.join(res))
    finally:
        shutil.rmtree(d, ignore_errors=True)


if __name__ == '__main__':
    main()
