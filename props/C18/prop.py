"""C18: container and derived serializations (ark-serialize impls.rs / serde.rs wrappers / derive).
Case generator + property metadata.

The type zoo ZOO maps a type id (the concrete Rust type compiled into harness/src/bin/c18.rs)
to a type descriptor (what the Coq model interprets).  The two tables are independent; a wrong
entry on either side shows up as a mismatch.

The small encoder below is NOT an oracle: it only manufactures decoder inputs (valid encodings
and the positions of length prefixes / bool bytes / option tags to corrupt).  Its output is never
compared with anything; a bug in it merely makes the "valid" stream less valid.
"""
import sys
sys.path.insert(0, '/verif/lib')

OPS = {'ser': 1, 'de': 2, 'rt': 3, 'ser_ref': 4, 'ser_slice': 5, 'check': 6, 'batch_check': 7}

# ---------------------------------------------------------------- descriptors
def U(w): return ('u', w)
def S(w): return ('s', w)
BOOL, UNIT, EVEN, MODAL, STR, BIG = ('bool',), ('unit',), ('even',), ('modal',), ('str',), ('big',)
def OPT(t): return ('opt', t)
def PAIR(a, b): return ('pair', a, b)
def TUP(*ts):
    r = UNIT
    for t in reversed(ts):
        r = PAIR(t, r)
    return r
def ARR(n, t): return ('arr', n, t)
def SEQ(t): return ('seq', t)
def MAP(k, v): return ('map', k, v)
def SET(k): return ('set', k)
def WRAP(c, v, t): return ('wrap', c, v, t)
def CC(t): return WRAP(1, 1, t)
def CU(t): return WRAP(1, 0, t)
def UC(t): return WRAP(0, 1, t)
def UU(t): return WRAP(0, 0, t)
def STRUCT(*fields): return ('struct', TUP(*fields))
def LEAF(w, k): return ('leaf', w, k)       # w-byte unsigned leaf, valid iff k = 0: even, k = 1: < 200

NAMED = STRUCT(U(8), TUP(U(8), TUP(U(2), BOOL)), SEQ(U(1)), OPT(EVEN))
TUPS = STRUCT(U(1), TUP(BOOL, TUP(MODAL, U(2))), STR)
MARKER = STRUCT(UNIT)
SMALL = STRUCT(EVEN, TUP(U(1)))
NEST = STRUCT(NAMED, TUPS, SEQ(SMALL), MARKER)
def GEN(t): return STRUCT(t, TUP(BOOL, t))
# validity-bearing leaves (hand-written Valid impls in the harness) and derived structs over them
E32, LT = LEAF(4, 0), LEAF(1, 1)
VN = STRUCT(E32, U(2), LT)                                  # named fields
VT = STRUCT(LT, E32)                                        # tuple struct
VNT = STRUCT(U(1), TUP(E32, TUP(LT, BOOL)), EVEN)           # nested-tuple field
OUTER = STRUCT(U(1), SEQ(VT))
VB = STRUCT(BOOL, OPT(U(2)), SEQ(OPT(BOOL)))

ZOO = {
    0: U(1), 1: U(2), 2: U(4), 3: U(8), 4: S(1), 5: S(2), 6: S(4), 7: S(8), 8: U(8), 9: S(8), 10: BOOL,
    11: UNIT, 12: UNIT,
    13: OPT(U(4)), 14: OPT(OPT(BOOL)),
    15: TUP(U(1)), 16: TUP(U(2), BOOL), 17: TUP(U(1), S(4), BOOL), 18: TUP(U(1), U(2), U(4), U(8)),
    19: TUP(BOOL, U(1), OPT(U(2)), STR, S(8)),
    20: ARR(3, U(2)), 21: ARR(2, BOOL), 22: ARR(0, U(1)), 23: ARR(2, OPT(U(1))), 24: ARR(2, U(8)),
    25: SEQ(U(1)), 26: SEQ(BOOL), 27: SEQ(U(4)), 28: SEQ(U(2)), 29: SEQ(S(2)),
    30: SEQ(OPT(TUP(U(2), SEQ(BOOL)))), 31: SEQ(SEQ(SEQ(U(1)))), 32: SEQ(STR), 33: SEQ(UNIT),
    34: STR, 35: OPT(STR),
    36: MAP(U(1), SEQ(U(4))), 37: MAP(STR, U(2)), 38: MAP(TUP(U(1), BOOL), OPT(U(1))),
    39: SET(U(2)), 40: SET(SEQ(U(1))), 41: SET(S(1)), 42: MAP(U(2), SET(U(1))),
    43: BIG, 44: SEQ(BIG),
    45: EVEN, 46: SEQ(EVEN), 47: OPT(EVEN), 48: ARR(2, EVEN), 49: TUP(EVEN, U(1)),
    50: MAP(U(1), EVEN), 51: SEQ(SEQ(EVEN)),
    52: MODAL, 53: SEQ(MODAL), 54: TUP(MODAL, EVEN),
    55: CC(MODAL), 56: UC(MODAL), 57: CU(EVEN), 58: UU(TUP(MODAL, EVEN)),
    59: SEQ(CU(EVEN)), 60: SEQ(UC(TUP(MODAL, EVEN))), 61: CC(SEQ(EVEN)), 62: CU(UC(MODAL)),
    63: U(4), 64: SEQ(EVEN), 65: U(8), 66: SEQ(TUP(U(1), BOOL)),
    67: NAMED, 68: TUPS, 69: MARKER, 70: NEST, 71: SEQ(SMALL), 72: GEN(MODAL),
    73: SET(OPT(U(2))), 74: SEQ(EVEN), 75: UC(SEQ(GEN(MODAL))),
    76: SET(EVEN), 77: TUP(SEQ(U(1)), SEQ(U(1))),
    78: E32, 79: LT, 80: VN, 81: VT, 82: VNT, 83: GEN(E32), 84: GEN(VT),
    85: SEQ(VT), 86: SEQ(SEQ(VT)), 87: SEQ(OPT(VT)), 88: ARR(2, SEQ(VT)), 89: OPT(SEQ(VN)),
    90: MAP(U(1), VT), 91: SEQ(VN), 92: SEQ(VNT), 93: TUP(VT, SEQ(VT)),
    94: OUTER, 95: SEQ(OUTER), 96: VT, 97: VN, 98: SEQ(VN),
    99: SET(VT), 100: SEQ(SEQ(VN)), 101: SEQ(OPT(VT)), 102: MAP(U(1), SEQ(VT)),
    103: SEQ(SET(VT)), 104: SEQ(TUP(VT, OPT(VN))), 105: SEQ(GEN(SEQ(VT))), 106: SEQ(ARR(2, VT)),
    107: SEQ(SEQ(LT)), 108: SEQ(OPT(E32)), 109: SEQ(VT),
    110: CC(SEQ(SEQ(VT))), 111: SEQ(CU(VT)), 112: SEQ(SEQ(SEQ(VNT))), 113: MAP(VT, OPT(VN)),
    114: VB, 115: SEQ(VB), 116: ARR(3, OPT(BOOL)), 117: SEQ(OPT(U(1))), 118: SEQ(BOOL), 119: SEQ(OPT(U(2))),
    120: ARR(2, VT), 121: OPT(VT), 122: SEQ(ARR(2, SEQ(VN))), 123: UU(SEQ(SEQ(VT))), 124: SEQ(SEQ(VT)),
}
LIGHT = set(range(78, 125))     # ids added for the validation streams: reduced share of the generic streams
VEC_IDS = [25, 26, 27, 30, 31, 32, 33, 44, 46, 53, 59, 60, 66, 71, 85, 86, 87, 95, 98, 104, 107, 108, 115, 119]      # Rust type is literally Vec<_>


def desc(t):
    k = t[0]
    if k == 'u': return [0, t[1]]
    if k == 's': return [1, t[1]]
    if k == 'bool': return [2]
    if k == 'unit': return [3]
    if k == 'even': return [4]
    if k == 'modal': return [5]
    if k == 'opt': return [6] + desc(t[1])
    if k == 'pair': return [7] + desc(t[1]) + desc(t[2])
    if k == 'arr': return [8, t[1]] + desc(t[2])
    if k == 'seq': return [9] + desc(t[1])
    if k == 'str': return [10]
    if k == 'map': return [11] + desc(t[1]) + desc(t[2])
    if k == 'set': return [12] + desc(t[1])
    if k == 'big': return [13]
    if k == 'wrap': return [14, t[1], t[2]] + desc(t[3])
    if k == 'struct': return [15] + desc(t[1])
    if k == 'leaf': return [16, t[1], t[2]]
    raise ValueError(t)


def subtypes(t):
    return [s for s in t[1:] if isinstance(s, tuple)]


def has_vleaf(t):
    """the type has values that are not valid"""
    return t[0] in ('even', 'leaf') or any(has_vleaf(s) for s in subtypes(t))


def zst(t):
    k = t[0]
    if k == 'unit': return True
    if k == 'pair': return zst(t[1]) and zst(t[2])
    if k == 'arr': return t[1] == 0 or zst(t[2])
    if k in ('wrap',): return zst(t[3])
    if k == 'struct': return zst(t[1])
    return False


def has_zst_seq(t):
    k = t[0]
    if k in ('seq', 'set'): return zst(t[1]) or has_zst_seq(t[1])
    if k == 'map': return (zst(t[1]) and zst(t[2])) or has_zst_seq(t[1]) or has_zst_seq(t[2])
    if k in ('opt', 'struct'): return has_zst_seq(t[1])
    if k == 'pair': return has_zst_seq(t[1]) or has_zst_seq(t[2])
    if k == 'arr': return has_zst_seq(t[2])
    if k == 'wrap': return has_zst_seq(t[3])
    return False


def has_str(t):
    if t[0] == 'str': return True
    return any(isinstance(s, tuple) and has_str(s) for s in t[1:])


# ---------------------------------------------------------------- values
# python values: int | None (unit) | (a, b) pair | ('none',) / ('some', v) | list (arr/seq/set/str bytes)
# | list of (k, v) (map, sorted by key)
CPS = [0x00, 0x41, 0x7f, 0x80, 0x7ff, 0x800, 0xfff, 0x1000, 0xd7ff, 0xe000, 0xfffd, 0xffff, 0x10000, 0x3ffff,
       0x40000, 0xfffff, 0x100000, 0x10ffff]


def rand_cp(rng):
    r = rng.randrange(4)
    if r == 0: return rng.choice(CPS)
    if r == 1: return rng.randrange(0x80)
    while True:
        cp = rng.randrange(0x110000)
        if not 0xd800 <= cp < 0xe000:
            return cp


def rand_int(rng, lo, hi, mode):
    """integer in [lo, hi]"""
    if mode == 'min': return rng.choice([0, lo]) if lo <= 0 else lo
    if mode == 'max': return rng.choice([hi, lo, hi - 1, -1 if lo < 0 else hi])
    r = rng.randrange(6)
    if r == 0: return rng.choice([lo, hi, 0 if lo <= 0 else lo, 1 if hi >= 1 else hi])
    if r == 1:
        sh = rng.randrange(1, max(2, hi.bit_length() + 1))
        v = (1 << sh) - rng.randrange(2)
        return max(lo, min(hi, v if lo == 0 or rng.randrange(2) else -v))
    if r == 2: return max(lo, min(hi, rng.randrange(-3, 300)))
    return rng.randrange(lo, hi + 1)


def key(t, v):
    """sort key consistent with Rust's Ord"""
    k = t[0]
    if k in ('u', 's', 'bool', 'even', 'modal', 'big', 'leaf'): return v
    if k == 'unit': return 0
    if k == 'opt': return (0,) if v[0] == 'none' else (1, key(t[1], v[1]))
    if k == 'pair': return (key(t[1], v[0]), key(t[2], v[1]))
    if k in ('arr', 'seq', 'set'): return [key(t[-1], x) for x in v]
    if k == 'str': return list(v)
    if k == 'map': return [(key(t[1], a), key(t[2], b)) for a, b in v]
    if k == 'wrap': return key(t[3], v)
    if k == 'struct': return key(t[1], v)
    raise ValueError(t)


def seq_len(rng, mode, depth):
    if mode == 'min': return 0
    if mode == 'big' and depth == 0: return rng.choice([64, 100, 255, 256, 257, 300])
    if depth >= 2: return rng.choice([0, 1, 1, 2, 3])
    return rng.choice([0, 1, 1, 2, 3, 4, 5, 8])


def rand_val(rng, t, mode='rand', depth=0, odd_even=False):
    k = t[0]
    rv = lambda s, d=depth: rand_val(rng, s, mode, d, odd_even)
    if k == 'u': return rand_int(rng, 0, (1 << (8 * t[1])) - 1, mode)
    if k == 's': return rand_int(rng, -(1 << (8 * t[1] - 1)), (1 << (8 * t[1] - 1)) - 1, mode)
    if k == 'bool': return 0 if mode == 'min' else (1 if mode == 'max' else rng.randrange(2))
    if k == 'unit': return None
    if k == 'even':
        v = rand_int(rng, 0, 255, mode)
        return (v | 1) if (odd_even and rng.randrange(3) == 0) else (v & ~1)
    if k == 'modal': return rand_int(rng, 0, 65535, mode)
    if k == 'leaf':
        if odd_even and rng.randrange(3) == 0: return bad_leaf(rng, t)
        v = rand_int(rng, 0, (1 << (8 * t[1])) - 1, mode)
        return (v & ~1) if t[2] == 0 else (v if v < 200 else rng.choice([199, 0, v - 100]))
    if k == 'big':
        if mode == 'min': return 0
        r = rng.randrange(6)
        if r == 0: return rng.choice([0, 1, 255, 256, 65535, 65536])
        if r == 1: return 1 << (8 * rng.randrange(1, 40))
        if r == 2: return (1 << (8 * rng.randrange(1, 40))) - 1
        return rng.getrandbits(rng.choice([7, 8, 9, 63, 64, 65, 255, 256, 300]))
    if k == 'opt':
        if mode == 'min' or (mode != 'max' and rng.randrange(3) == 0): return ('none',)
        return ('some', rv(t[1]))
    if k == 'pair': return (rv(t[1]), rv(t[2]))
    if k == 'arr': return [rv(t[2], depth + 1) for _ in range(t[1])]
    if k == 'seq': return [rv(t[1], depth + 1) for _ in range(seq_len(rng, mode, depth))]
    if k == 'str':
        n = seq_len(rng, mode, depth)
        return list(''.join(chr(rand_cp(rng)) for _ in range(n)).encode('utf-8'))
    if k == 'set':
        xs = {}
        for _ in range(seq_len(rng, mode, depth)):
            x = rv(t[1], depth + 1)
            xs[repr(key(t[1], x))] = x
        return sorted(xs.values(), key=lambda x: key(t[1], x))
    if k == 'map':
        xs = {}
        for _ in range(seq_len(rng, mode, depth)):
            a = rv(t[1], depth + 1)
            xs[repr(key(t[1], a))] = (a, rv(t[2], depth + 1))
        return sorted(xs.values(), key=lambda e: key(t[1], e[0]))
    if k == 'wrap': return rv(t[3])
    if k == 'struct': return rv(t[1])
    raise ValueError(t)


def bad_leaf(rng, t):
    """a value of a validity-bearing leaf type that fails Valid::check"""
    if t[0] == 'even': return rng.choice([1, 255, rng.randrange(256) | 1])
    hi = (1 << (8 * t[1])) - 1
    if t[2] == 0: return rng.choice([1, hi, rng.randrange(hi + 1) | 1])
    return rng.choice([200, 255, rng.randrange(200, 256)])


def map_leaves(t, v, f, d=0, ctr=None):
    """rebuild v with f(leaf type, leaf value, index, container depth) applied to every validity-bearing leaf, in
    encoding order"""
    if ctr is None: ctr = [0]
    k = t[0]
    rec = lambda s, x, dd: map_leaves(s, x, f, dd, ctr)
    if k in ('even', 'leaf'):
        i = ctr[0]; ctr[0] += 1
        return f(t, v, i, d)
    if k == 'opt': return v if v[0] == 'none' else ('some', rec(t[1], v[1], d + 1))
    if k == 'pair':
        a = rec(t[1], v[0], d)
        return (a, rec(t[2], v[1], d))
    if k in ('arr', 'seq', 'set'): return [rec(t[-1], x, d + 1) for x in v]
    if k == 'map':
        out = []
        for a, b in v:
            a2 = rec(t[1], a, d + 1)
            out.append((a2, rec(t[2], b, d + 1)))
        return out
    if k == 'wrap': return rec(t[3], v, d)
    if k == 'struct': return rec(t[1], v, d)
    return v


def leaf_depths(t, v):
    ds = []
    map_leaves(t, v, lambda lt, lv, i, d: (ds.append(d), lv)[1])
    return ds


def invalidate(rng, t, v, target):
    return map_leaves(t, v, lambda lt, lv, i, d: bad_leaf(rng, lt) if i == target else lv)


def has_dups(t, v):
    """a set / map inside v has two equal keys (not a value of the Rust type: value-side ops skip it)"""
    k = t[0]
    if k in ('set', 'map'):
        ks = [repr(key(t[1], x if k == 'set' else x[0])) for x in v]
        if len(set(ks)) != len(ks): return True
        if k == 'set': return any(has_dups(t[1], x) for x in v)
        return any(has_dups(t[1], a) or has_dups(t[2], b) for a, b in v)
    if k == 'opt': return v[0] == 'some' and has_dups(t[1], v[1])
    if k == 'pair': return has_dups(t[1], v[0]) or has_dups(t[2], v[1])
    if k in ('arr', 'seq'): return any(has_dups(t[-1], x) for x in v)
    if k == 'wrap': return has_dups(t[3], v)
    if k == 'struct': return has_dups(t[1], v)
    return False


def canon(t, v):
    """sets / maps inside v listed in key order (value-side ops take values of the Rust type)"""
    k = t[0]
    if k == 'set': return sorted((canon(t[1], x) for x in v), key=lambda x: key(t[1], x))
    if k == 'map': return sorted(((canon(t[1], a), canon(t[2], b)) for a, b in v), key=lambda e: key(t[1], e[0]))
    if k == 'opt': return v if v[0] == 'none' else ('some', canon(t[1], v[1]))
    if k == 'pair': return (canon(t[1], v[0]), canon(t[2], v[1]))
    if k in ('arr', 'seq'): return [canon(t[-1], x) for x in v]
    if k == 'wrap': return canon(t[3], v)
    if k == 'struct': return canon(t[1], v)
    return v


def flat(t, v):
    k = t[0]
    if k in ('u', 's', 'bool', 'even', 'modal', 'big', 'leaf'): return [v]
    if k == 'unit': return []
    if k == 'opt': return [0] if v[0] == 'none' else [1] + flat(t[1], v[1])
    if k == 'pair': return flat(t[1], v[0]) + flat(t[2], v[1])
    if k == 'arr': return [y for x in v for y in flat(t[2], x)]
    if k in ('seq', 'set'): return [len(v)] + [y for x in v for y in flat(t[1], x)]
    if k == 'str': return [len(v)] + list(v)
    if k == 'map': return [len(v)] + [y for a, b in v for y in flat(t[1], a) + flat(t[2], b)]
    if k == 'wrap': return flat(t[3], v)
    if k == 'struct': return flat(t[1], v)
    raise ValueError(t)


def le(v, w):
    return [(v >> (8 * i)) & 0xff for i in range(w)]


def encode(t, v, c, out, marks):
    """appends the encoding to out; marks gets (offset, kind, payload) for 'len' / 'bool' / 'tag'"""
    k = t[0]
    if k in ('u', 's'): out += le(v, t[1])
    elif k == 'bool': marks.append((len(out), 'bool', v)); out.append(v)
    elif k == 'unit': pass
    elif k == 'even': out.append(v)
    elif k == 'leaf': out += le(v, t[1])
    elif k == 'modal': out += le(v, 2 if c else 4)
    elif k == 'opt':
        marks.append((len(out), 'tag', 0 if v[0] == 'none' else 1))
        if v[0] == 'none': out.append(0)
        else:
            out.append(1); encode(t[1], v[1], c, out, marks)
    elif k == 'pair':
        encode(t[1], v[0], c, out, marks); encode(t[2], v[1], c, out, marks)
    elif k == 'arr':
        for x in v: encode(t[2], x, c, out, marks)
    elif k in ('seq', 'set'):
        marks.append((len(out), 'len', len(v))); out += le(len(v), 8)
        for x in v: encode(t[1], x, c, out, marks)
    elif k == 'str':
        marks.append((len(out), 'len', len(v))); out += le(len(v), 8); out += list(v)
    elif k == 'map':
        marks.append((len(out), 'len', len(v))); out += le(len(v), 8)
        for a, b in v:
            encode(t[1], a, c, out, marks); encode(t[2], b, c, out, marks)
    elif k == 'big':
        b = list(v.to_bytes(max(1, (v.bit_length() + 7) // 8), 'little'))
        marks.append((len(out), 'len', len(b))); out += le(len(b), 8); out += b
    elif k == 'wrap': encode(t[3], v, t[1], out, marks)
    elif k == 'struct': encode(t[1], v, c, out, marks)
    else: raise ValueError(t)


def enc(t, v, c):
    out, marks = [], []
    encode(t, v, c, out, marks)
    return out, marks


BAD_UTF8 = [
    ('overlong2', [0xc0, 0x80]), ('overlong2', [0xc1, 0xbf]), ('overlong3', [0xe0, 0x80, 0x80]),
    ('overlong3', [0xe0, 0x9f, 0xbf]), ('overlong4', [0xf0, 0x80, 0x80, 0x80]), ('overlong4', [0xf0, 0x8f, 0xbf, 0xbf]),
    ('surrogate', [0xed, 0xa0, 0x80]), ('surrogate', [0xed, 0xbf, 0xbf]), ('surrogate', [0xed, 0xb0, 0x80]),
    ('above_max', [0xf4, 0x90, 0x80, 0x80]), ('above_max', [0xf5, 0x80, 0x80, 0x80]), ('above_max', [0xf7, 0xbf, 0xbf, 0xbf]),
    ('five_byte', [0xf8, 0x88, 0x80, 0x80, 0x80]), ('fe_ff', [0xfe]), ('fe_ff', [0xff]),
    ('stray_cont', [0x80]), ('stray_cont', [0xbf]), ('short_seq', [0xc2]), ('short_seq', [0xe0, 0xa0]),
    ('short_seq', [0xf0, 0x90, 0x80]), ('short_seq', [0xe1]), ('short_seq', [0xf4, 0x8f]),
    ('bad_cont', [0xc2, 0x41]), ('bad_cont', [0xc2, 0xc0]), ('bad_cont', [0xe0, 0xa0, 0x41]), ('bad_cont', [0xe1, 0x80, 0xc0]),
    ('bad_cont', [0xf0, 0x90, 0x80, 0x41]), ('bad_cont', [0xf1, 0x80, 0x41, 0x80]), ('bad_cont', [0xe1, 0x7f, 0x80]),
    ('bad_cont', [0xf4, 0x7f, 0x80, 0x80]), ('bad_cont', [0xed, 0x7f, 0x80]), ('bad_cont', [0xf0, 0xc0, 0x80, 0x80]),
]
GOOD_UTF8 = [
    [0xc2, 0x80], [0xdf, 0xbf], [0xe0, 0xa0, 0x80], [0xe0, 0xbf, 0xbf], [0xe1, 0x80, 0x80], [0xec, 0xbf, 0xbf],
    [0xed, 0x80, 0x80], [0xed, 0x9f, 0xbf], [0xee, 0x80, 0x80], [0xef, 0xbf, 0xbf], [0xf0, 0x90, 0x80, 0x80],
    [0xf0, 0xbf, 0xbf, 0xbf], [0xf1, 0x80, 0x80, 0x80], [0xf3, 0xbf, 0xbf, 0xbf], [0xf4, 0x80, 0x80, 0x80],
    [0xf4, 0x8f, 0xbf, 0xbf], [0x00], [0x7f],
]


def inject_str(rng, t, v, s):
    """replace one string inside v (a value of type t, known to contain a string type) by the bytes s;
    returns (v', done)"""
    k = t[0]
    if k == 'str': return list(s), True
    if k == 'opt':
        if v[0] == 'none': v = ('some', rand_val(rng, t[1]))
        w, d = inject_str(rng, t[1], v[1], s)
        return ('some', w), d
    if k == 'pair':
        if has_str(t[1]):
            w, d = inject_str(rng, t[1], v[0], s)
            return (w, v[1]), d
        w, d = inject_str(rng, t[2], v[1], s)
        return (v[0], w), d
    if k in ('seq', 'set', 'arr'):
        v = list(v)
        if not v: v = [rand_val(rng, t[-1])]
        i = rng.randrange(len(v))
        v[i], d = inject_str(rng, t[-1], v[i], s)
        return v, d
    if k == 'map':
        v = list(v)
        if not v: v = [(rand_val(rng, t[1]), rand_val(rng, t[2]))]
        i = rng.randrange(len(v))
        if has_str(t[1]):
            w, d = inject_str(rng, t[1], v[i][0], s); v[i] = (w, v[i][1])
        else:
            w, d = inject_str(rng, t[2], v[i][1], s); v[i] = (v[i][0], w)
        return v, d
    if k == 'wrap': return inject_str(rng, t[3], v, s)
    if k == 'struct': return inject_str(rng, t[1], v, s)
    return v, False


def shuffle_maps(rng, t, v, dup):
    """de-only values: maps / sets with entries out of order (and duplicated keys when dup)"""
    k = t[0]
    if k in ('set', 'map'):
        v = list(v)
        if dup and v:
            for _ in range(rng.randrange(1, 3)):
                e = rng.choice(v)
                if k == 'map': e = (e[0], rand_val(rng, t[2]))
                v.insert(rng.randrange(len(v) + 1), e)
        rng.shuffle(v)
        return v
    if k == 'opt': return v if v[0] == 'none' else ('some', shuffle_maps(rng, t[1], v[1], dup))
    if k == 'pair': return (shuffle_maps(rng, t[1], v[0], dup), shuffle_maps(rng, t[2], v[1], dup))
    if k in ('seq', 'arr'): return [shuffle_maps(rng, t[-1], x, dup) for x in v]
    if k == 'wrap': return shuffle_maps(rng, t[3], v, dup)
    if k == 'struct': return shuffle_maps(rng, t[1], v, dup)
    return v


HUGE = [1 << 16, 1 << 32, 1 << 40, 1 << 63, (1 << 64) - 1]
ALL_MODES = [(1, 1), (1, 0), (0, 1), (0, 0)]


def gen(rng, tier):
    """Branch coverage of serialize/src/impls.rs (every id is visited by every stream below):
    # branch: bool 0 / 1 / other -> ids 10, 14, 16, 21, 26 ... (valid values, de/corrupt_bool)
    # branch: impl_uint! LE read/write, usize/isize as u64/i64 -> ids 0-9 (min / max / powers of two)
    # branch: BigUint zero ([0]) / non-zero minimal bytes / non-minimal input -> ids 43, 44 (de/mutated, de/prefix_*)
    # branch: Option None / Some, tag other -> ids 13, 14, 23, 30, 35, 47, 73 (de/corrupt_tag)
    # branch: PhantomData / () no-ops -> ids 11, 12, 33, 69, 70
    # branch: Arc / Cow / Rc / &T / &mut T delegation -> ids 63-66 and op ser_ref on every id
    # branch: [T; N] loop + `validate == Yes` batch_check, N = 0 -> ids 20-24, 48
    # branch: Vec / VecDeque bounded_capacity: len below the cap and above it (de/prefix_huge) -> ids 25-33, 46, 51, ...
    # branch: LinkedList loop -> ids 29, 74;  serialize_seq / get_serialized_size_of_seq -> ids 28, 29, ser_slice
    # branch: elements read with Validate::No then batch_check -> Even ids 46, 48, 51, 59-61, 64, 74 with odd payloads
    # branch: String from_utf8 Ok / Err -> ids 19, 32, 34, 35, 37, 68 (de/utf8_*)
    # branch: impl_tuple! 1..5 -> ids 15-19;  BTreeMap / BTreeSet collect -> ids 36-42, 50, 73, 76 (de/map_*)
    # branch: impl_canonical! Compress::Yes / Compress::No arms x Validate pin -> ids 55-62, 75
    # branch: derive named / tuple / nested tuple / generic / zero-sized -> ids 67-72, 75
    # branch: derive-generated Valid::check / batch_check (collect + one batch_check per flattened field) driven by
    #         slice iterators (Vec<S>) and by flat_map / filter / flatten / map iterators (Vec<Vec<S>>, Vec<Option<S>>,
    #         [Vec<S>; N], BTreeMap values, Arc / Cow / wrappers) -> ids 78-113, 120-124 (gen_validation)
    # branch: bool byte / option tag check reached with Validate::No from inside sequences -> ids 114-119 (gen_tags)
    """
    scale = 1 if tier == 'quick' else 12
    ids = sorted(ZOO)

    def de(i, bs, c, v, cls):
        return 'de', [[i], desc(ZOO[i]), list(bs), [c, v]], cls

    for rep in range(3 * scale):
        for i in ids:
            t = ZOO[i]
            zs = has_zst_seq(t)
            light = i in LIGHT
            if light and rep % 3:
                continue
            modes = ['min', 'max', 'rand', 'rand', 'big'] if rep == 0 else ['rand', 'rand', 'max']
            if light:
                modes = ['min', 'max', 'rand'] if rep == 0 else ['rand', 'max']
            for mode in modes:
                # ---- value-side ops: every impl's serialize_with_mode / serialized_size, both modes
                x = rand_val(rng, t, mode, odd_even=True)
                fx = flat(t, x)
                d = desc(t)
                yield 'ser', [[i], d, fx], 'ser/' + mode
                yield 'rt', [[i], d, fx], 'rt/' + mode
                yield 'check', [[i], d, fx], 'check/' + mode                  # Valid::check of every impl
                if mode != 'big' or rng.randrange(3) == 0:
                    yield 'ser_ref', [[i], d, fx], 'ser_ref/' + mode      # &T, &mut T, Rc<T> impls
                    if i in VEC_IDS:
                        yield 'ser_slice', [[i], d, fx], 'ser_slice/' + mode   # [T] and &[T] impls
                # ---- decode side
                for c in (1, 0):
                    bs, marks = enc(t, x, c)
                    big = len(bs) > 96
                    # branch: every impl's deserialize_with_mode on a valid encoding, 4 mode pairs;
                    # Even with an odd payload exercises "elements read with Validate::No, then batch_check"
                    for (c2, v2) in ALL_MODES:
                        if c2 == c or rng.randrange(4) == 0:
                            yield de(i, bs, c2, v2, 'de/valid' if c2 == c else 'de/cross_mode')
                    yield de(i, bs + [rng.randrange(256) for _ in range(rng.randrange(1, 9))], c, rng.randrange(2),
                             'de/valid+trailing')
                    # branch: read_exact failing at every position  (truncation -> IoError)
                    cuts = range(len(bs)) if not big else sorted(
                        set(rng.randrange(len(bs)) for _ in range(24)) | {0, 1, 7, 8, 9, len(bs) - 1}
                        | {m[0] + o for m in marks[:6] for o in (-1, 0, 1, 7, 8, 9) if 0 <= m[0] + o < len(bs)})
                    if light and len(bs) > 14:
                        cuts = sorted(set(rng.randrange(len(bs)) for _ in range(10)) | {0, 7, 8, len(bs) - 1})
                    for n in cuts:
                        yield de(i, bs[:n], c, rng.randrange(2), 'de/trunc')
                    if mode == 'big' and rng.randrange(2):
                        continue
                    # branch: single-byte corruption of bool bytes, option tags, every length-prefix byte
                    nm = 3 if (light or mode == 'big') else 10     # 'big': the model's fuel computation is quadratic there
                    ms = marks if len(marks) <= nm else rng.sample(marks, nm)
                    for (off, kind, val) in ms:
                        if kind in ('bool', 'tag'):
                            for nb in {0, 1, 2, 3, 0x80, 0xff, val ^ 1, rng.randrange(256)}:
                                if nb != val:
                                    b2 = list(bs); b2[off] = nb
                                    yield de(i, b2, c, rng.randrange(2), 'de/corrupt_' + kind)
                        else:
                            for j in range(8):
                                for nb in {bs[off + j] ^ 1, 0xff, (bs[off + j] + 1) & 0xff, rng.randrange(256)}:
                                    if zs and (j > 0 or nb > 200):
                                        continue    # DEFECT-1: Vec<()> iterates `len` times on 8 bytes of input
                                    if nb != bs[off + j]:
                                        b2 = list(bs); b2[off + j] = nb
                                        yield de(i, b2, c, rng.randrange(2), 'de/corrupt_len_byte%d' % j)
                            # branch: oversized length prefix -> bounded_capacity + EOF (Vec/VecDeque), plain EOF
                            # (LinkedList, BTreeMap, BTreeSet, String, BigUint)
                            news = [val + 1, val + 2, val - 1] + ([] if zs else HUGE)   # DEFECT-1 (zs)
                            for nl in news:
                                if nl < 0:
                                    continue
                                b2 = list(bs); b2[off:off + 8] = le(nl, 8)
                                yield de(i, b2, c, rng.randrange(2),
                                         'de/prefix_%s' % ('huge' if nl >= 1 << 16 else ('minus' if nl < val else 'plus')))
                                if nl >= 1 << 16 and rng.randrange(3) == 0:
                                    b3 = b2 + [rng.randrange(256) for _ in range(rng.choice([1, 8, 64, 300]))]
                                    yield de(i, b3, c, rng.randrange(2), 'de/prefix_huge+trailing')
                    # mutated valid encodings: random bytes at random places
                    for _ in range(2 if light else 4):
                        if not bs:
                            break
                        b2 = list(bs)
                        for _ in range(rng.randrange(1, 4)):
                            p = rng.randrange(len(b2))
                            if zs:
                                continue
                            b2[p] = rng.choice([0, 1, 2, 0xff, rng.randrange(256)])
                        yield de(i, b2, c, rng.randrange(2), 'de/mutated')
            # ---- maps / sets whose entries are not in key order or repeat keys (decode collects)
            if any(s in repr(t) for s in ("'map'", "'set'")):
                for dup in (False, True, True):
                    x = shuffle_maps(rng, t, rand_val(rng, t, 'rand'), dup)
                    for c in (1, 0):
                        bs, _ = enc(t, x, c)
                        yield de(i, bs, c, rng.randrange(2), 'de/map_dup' if dup else 'de/map_unsorted')
            # ---- invalid UTF-8 classes (String::from_utf8 -> InvalidData) and boundary-valid sequences
            if has_str(t):
                x0 = rand_val(rng, t, 'rand')
                seqs = [(cls, b) for cls, b in BAD_UTF8] + [('valid_boundary', b) for b in GOOD_UTF8]
                if i != 34:
                    seqs = rng.sample(seqs, 12)
                for cls, b in seqs:
                    pre = rng.choice([[], [0x41], [0xc3, 0xa9], [0xf0, 0x9f, 0x98, 0x80]])
                    suf = rng.choice([[], [0x42], [0xe2, 0x82, 0xac]])
                    x, done = inject_str(rng, t, x0, pre + b + suf)
                    if not done:
                        continue
                    bs, _ = enc(t, x, 1)
                    yield de(i, bs, 1, rng.randrange(2), 'de/utf8_' + cls)
            # ---- unstructured input
            for _ in range(6):
                n = rng.choice([0, 1, 2, 7, 8, 9, 16, 17, 40])
                bs = [rng.randrange(256) for _ in range(n)]
                if rng.randrange(2) and n >= 8:
                    bs[1:8] = [0] * 7; bs[0] = rng.randrange(6)          # plausible small length prefix
                if zs and n >= 8:
                    bs[1:8] = [0] * 7                                    # DEFECT-1: keep Vec<()> prefixes small
                yield de(i, bs, rng.randrange(2), rng.randrange(2), 'de/random')
    yield from gen_validation(rng, tier)
    yield from gen_tags(rng, tier)


def gen_validation(rng, tier):
    """Validate::Yes must reject, Validate::No must accept, an encoding in which exactly one leaf fails Valid::check
    (first / middle / last / deepest leaf), for every type with validity-bearing leaves; all-valid controls;
    Valid::check and batch_check called directly on the same values."""
    scale = 1 if tier == 'quick' else 10
    for i in sorted(ZOO):
        t = ZOO[i]
        if not has_vleaf(t):
            continue
        d = desc(t)
        for rep in range((2 if i in LIGHT else 1) * scale):
            cands = [rand_val(rng, t, m) for m in ('rand', 'rand', 'rand', 'max')]
            x = max(cands, key=lambda y: (min(len(leaf_depths(t, y)), 12), rng.random()))
            depths = leaf_depths(t, x)
            n = len(depths)
            # ---- controls: every leaf valid
            for c in (1, 0):
                bs, _ = enc(t, x, c)
                for v2 in (1, 0):
                    yield 'de', [[i], d, bs, [c, v2]], 'de/leaves_all_valid'
            yield 'check', [[i], d, flat(t, x)], 'check/all_valid'
            if n == 0:
                continue
            targets = [('first', 0), ('middle', n // 2), ('last', n - 1),
                       ('deepest', max(range(n), key=lambda j: (depths[j], j)))]
            for name, tg in targets:
                y = invalidate(rng, t, x, tg)
                for c in (1, 0):
                    bs, _ = enc(t, y, c)
                    for v2 in (1, 0):
                        yield 'de', [[i], d, bs, [c, v2]], 'de/invalid_leaf_' + name
                    if rng.randrange(4) == 0:
                        yield 'de', [[i], d, bs + [rng.randrange(256)], [c, 1]], 'de/invalid_leaf+trailing'
                if not has_dups(t, y):
                    fy = flat(t, canon(t, y))
                    yield 'check', [[i], d, fy], 'check/invalid_leaf_' + name
                    yield 'rt', [[i], d, fy], 'rt/invalid_leaf_' + name
            # ---- batch_check on a batch of values: all valid, then exactly one invalid leaf in one member
            for nb in ([0, 1, 3] if rep == 0 else [rng.choice([2, 4, 6])]):
                batch = [rand_val(rng, t, 'rand') for _ in range(nb)]
                yield 'batch_check', [[i], d, [nb] + [z for y in batch for z in flat(t, y)]], 'batch_check/all_valid'
                withl = [j for j, y in enumerate(batch) if leaf_depths(t, y)]
                if withl:
                    j = rng.choice(withl)
                    yj = invalidate(rng, t, batch[j], rng.randrange(len(leaf_depths(t, batch[j]))))
                    if not has_dups(t, yj):
                        b2 = batch[:j] + [canon(t, yj)] + batch[j + 1:]
                        yield 'batch_check', [[i], d, [nb] + [z for y in b2 for z in flat(t, y)]], 'batch_check/one_invalid'


def gen_tags(rng, tier):
    """bool bytes and option tags 2..255 wherever they occur - in particular inside sequences (whose elements are read
    with Validate::No) and derived structs - under both Validate modes: always InvalidData."""
    quick = tier == 'quick'
    for i in sorted(ZOO):
        t = ZOO[i]
        if has_zst_seq(t):
            continue
        d = desc(t)
        for rep in range(1 if quick else 6):
            x = rand_val(rng, t, 'max' if rep == 0 else 'rand')
            for c in ((1, 0) if (i in LIGHT or not quick) else (rng.randrange(2),)):
                bs, marks = enc(t, x, c)
                ms = [m for m in marks if m[1] in ('bool', 'tag')]
                if not ms:
                    continue
                pick = {0, len(ms) - 1, rng.randrange(len(ms))} if quick else set(range(len(ms))[:12])
                for j in sorted(pick):
                    off, kind, val = ms[j]
                    nbs = [2, 0xff, rng.randrange(3, 0xff)] if quick else [2, 3, 4, 0x7f, 0x80, 0xfe, 0xff] + \
                        [rng.randrange(2, 256) for _ in range(3)]
                    for nb in nbs:
                        b2 = list(bs); b2[off] = nb
                        for v2 in (1, 0):
                            yield 'de', [[i], d, b2, [c, v2]], 'de/%s_2_255' % kind


def xcheck_ok(case):
    return sum(len(a) for a in case['args']) < 400


def nontrivial(case, out):
    return len(case['args'][2]) > 0


RULE = ('type zoo of %d concrete Rust types (integers, bool, unit/PhantomData, Option, tuples 1..5, arrays, BigInt<2>, '
        'Vec/VecDeque/LinkedList incl. 3-deep nestings, String, BTreeMap/BTreeSet, BigUint, Arc/Cow, the four '
        'mode-pinning wrappers, derived named/tuple/nested/generic structs, four harness leaf types that make '
        'Compress and Validate observable (Even, Modal, Even32, Lt200 - the last with a hand-written batch_check), '
        'derived structs over the validity-bearing leaves and 40 containers of those structs nested 1-3 deep) x value '
        'classes (min, max, random, large) x ops (serialize + serialized_size in both modes, roundtrip in 4 mode pairs, '
        '&T/&mut T/Rc<T>/[T]/&[T] serialization, deserialize, Valid::check, Valid::batch_check over exact-size and '
        'inexact-size iterators); decode stream: valid, cross-mode, trailing bytes, every truncation, single-byte '
        'corruption of bool bytes / option tags / each length-prefix byte, prefixes len+-1, len+2, 2^16, 2^32, 2^40, '
        '2^63, 2^64-1, unsorted and duplicate map/set entries, 32 invalid + 18 boundary-valid UTF-8 sequences, mutated '
        'and random bytes; validation stream: encodings / values with exactly one invalid leaf (first, middle, last, '
        'deepest) in all 4 (Compress, Validate) modes with all-valid controls; bool bytes / option tags 2..255 in '
        'place, both Validate modes; non-trivial = non-empty payload; distinct = distinct case lines' % len(ZOO))
XCHECK = {'quick': 300, 'thorough': 1500}
TRUSTED = ['String::from_utf8 (std) and BigUint::{to_bytes_le, from_bytes_le} (num-bigint) are called, not modelled line by '
           'line: the model uses an executable RFC 3629 validator and minimal little-endian bytes, tied by correspondence',
           'BTreeMap/BTreeSet FromIterator (std): modelled as sorted insertion where a later equal key replaces an earlier one',
           'type-id -> Rust type table in harness/src/bin/c18.rs vs id -> descriptor table in props/C18/prop.py',
           'the validity-bearing leaf types Even, Even32, Lt200 are written in the harness (hand-written Valid impls, the '
           'way curve points are written); every container / derive-generated Valid impl above them is /repo code']
ASSUMPTIONS = ['64-bit target: u64 -> usize conversion of a length prefix cannot fail (NotEnoughSpace unreachable)',
               'reader is an in-memory slice (&[u8]); IoError sub-kinds are not compared',
               'sequence containers of zero-sized element encodings (Vec<()>, Vec<PhantomData<_>>, Vec<[T;0]>) are only '
               'exercised with length prefixes <= 4096: the Rust loop runs `len` times regardless of the input (see NOTES, DEFECT-1)',
               'serialized_size sums are far below usize::MAX (no overflow modelled)']
HYPOTHESES = []


# T-ser translator (lib/expand_serde.py + lib/xlate_serde.py): the code the CanonicalSerialize / CanonicalDeserialize derive
# macros GENERATE for ten sample structs (expanded with rustc -Zunpretty=expanded, cached on a hash of serialize-derive and
# serialize sources) is translated to terms over the C18 codec model; Props/GenSer.v (generated = TStruct model, composed
# with the C18 theorems) is a strict obligation
STRICT_PROP_FILES = ['GenSer']


def pre(ctx):
    import importlib.util, os
    sp = importlib.util.spec_from_file_location('genser_pre', os.path.join(ctx['ROOT'], 'props', 'GenSer', 'pre.py'))
    m = importlib.util.module_from_spec(sp); sp.loader.exec_module(m)
    m.regen(ctx)
