#!/usr/bin/env python3
"""One-time dump of the configuration constants (moduli, non-residues, curve coefficients,
generators) from the compiled crates into params.json.  The constants are re-validated on
every run by the fld_params / sw_params / te_params cases (model echoes params.json, the
harness prints what the crates contain)."""
import subprocess, json, sys
BIN = '/verif/build/target/debug/c19'
def ask(line):
    o = subprocess.run([BIN], input=line + '\n', text=True, stdout=subprocess.PIPE).stdout.strip().split(' ')
    assert o[0] == '0', (line, o)
    return [[int(t, 16) for t in x.split(',')] for x in o[1:]]
FIELDS = {  # name: (cfg, kind, N)
    'bls12_381_fq': (0, 1, 6), 'bls12_381_fr': (1, 1, 4), 'secp256k1_fq': (2, 1, 4), 'secp256k1_fr': (3, 1, 4),
    'mnt6_753_fq': (4, 1, 12), 'f13': (5, 1, 1), 'm61': (6, 1, 1), 'goldilocks': (7, 1, 1), 'jubjub_fq': (8, 1, 4),
    'bls12_381_fq2': (0, 2, 6), 'f13_2': (5, 2, 1), 'mnt6_753_fq3': (4, 3, 12), 'bls12_381_fq6': (0, 6, 6),
    'bls12_381_fq12': (0, 12, 6)}
# (cfg, kind, N, scalar field, var): var = index of the curve among those over the same field (a[0][3], harness only)
SW = {'bls12_381_g1': (0, 1, 6, 'bls12_381_fr', 0), 'bls12_381_g2': (0, 2, 6, 'bls12_381_fr', 0),
      'secp256k1': (2, 1, 4, 'secp256k1_fr', 0), 'toy_sw13': (5, 1, 1, None, 0), 'toy_sw13b': (5, 1, 1, None, 1),
      'toy_sw13c': (5, 1, 1, None, 2)}
TE = {'jubjub': (8, 1, 4, None, 0), 'toy_te13': (5, 1, 1, None, 0)}
out = {'fields': {}, 'sw': {}, 'te': {}}
for n, (c, k, N) in FIELDS.items():
    out['fields'][n] = {'cfg': c, 'kind': k, 'N': N, 'params': ask('3:fld_params %x,%x,%x' % (c, k, N))[0]}
for n, (c, k, N, fr, var) in SW.items():
    r = ask('7:sw_params %x,%x,%x,%x' % (c, k, N, var))
    out['sw'][n] = {'cfg': c, 'kind': k, 'N': N, 'var': var, 'params': r[0], 'a': r[1], 'b': r[2], 'G': r[3], 'fr': fr}
for n, (c, k, N, fr, var) in TE.items():
    r = ask('9:te_params %x,%x,%x,%x' % (c, k, N, var))
    out['te'][n] = {'cfg': c, 'kind': k, 'N': N, 'var': var, 'params': r[0], 'a': r[1], 'd': r[2], 'G': r[3]}
r = ask('d:gt_params 0,c,6')
out['gt'] = {'bls12_381': {'params': r[0], 'g': r[1]}}
json.dump(out, open('/verif/props/C19/params.json', 'w'), indent=1, sort_keys=True)
print('ok')
