"""C19: equality, ordering and hashing coincide with mathematical identity.
Case generator + property metadata.  Constants come from params.json (dumped from the compiled
crates by mkparams.py and re-validated on every run by the *_params cases)."""
import sys, os, json
sys.path.insert(0, '/verif/lib')

OPS = {'fld_rel': 1, 'fld_sort': 2, 'fld_params': 3, 'big_rel': 4, 'big_sort': 5, 'sw_rel': 6, 'sw_params': 7,
       'te_rel': 8, 'te_params': 9, 'gt_rel': 10, 'gt_pair': 11, 'poly_rel': 12, 'gt_params': 13}

PARAMS = json.load(open(os.path.join(os.path.dirname(os.path.abspath(__file__)), 'params.json')))
FIELDS, SW, TE = PARAMS['fields'], PARAMS['sw'], PARAMS['te']
JUBJUB_R = 6554484396890773809930967563523245729705921265872317281365359162392183254199
M64 = (1 << 64) - 1
DEG = {1: 1, 2: 2, 3: 3, 6: 6, 12: 12}


def head(f):
    return [f['cfg'], f['kind'], f['N']]


def limbs(v, n):
    return [(v >> (64 * i)) & M64 for i in range(n)]


# ---------------------------------------------------------------- operands
def fp_operand(rng, p, N):
    """canonical residue from boundary classes; returns (value, class)"""
    k = rng.randrange(13)
    if k == 0:
        return 0, 'zero'
    if k == 1:
        return 1, 'one'
    if k == 2:
        return p - 1, 'minus_one'
    if k == 3:
        return rng.choice([2, 3, p - 2, (p - 1) // 2, (p + 1) // 2]) % p, 'small_or_half'
    if k == 4:
        e = 64 * rng.randrange(1, N + 1)
        return ((1 << e) - rng.choice([0, 1, 2])) % p, 'limb_boundary'
    if k == 5:
        return (1 << (64 * N)) % p, 'R_mod_p'          # the Montgomery form of 1 read as a residue
    if k == 6:
        return (p - 1 - rng.randrange(1 << rng.randrange(1, 60))) % p, 'near_p'
    if k == 7:
        return rng.getrandbits(64 * rng.randrange(1, N + 1)) % p, 'dense_short'
    if k == 8:
        return pow(2, -64 * N, p) if p > 2 else 0, 'Rinv'   # Montgomery form is the limb vector [1,0,..]
    return rng.randrange(p), 'dense'


def ext_operand(rng, p, N, d):
    if d == 1:
        v, c = fp_operand(rng, p, N)
        return [v], c
    k = rng.randrange(8)
    if k == 0:
        return [0] * d, 'zero'
    if k == 1:
        return [1] + [0] * (d - 1), 'one'
    if k == 2:                                   # only one non-zero coordinate
        i = rng.randrange(d)
        v = [0] * d
        v[i] = fp_operand(rng, p, N)[0]
        return v, 'single_coord'
    if k == 3:                                   # base-field element embedded
        return [fp_operand(rng, p, N)[0]] + [0] * (d - 1), 'base_embedded'
    return [fp_operand(rng, p, N)[0] for _ in range(d)], 'mixed'


# expression pairs that denote the SAME value for all operands
F_EQUAL = [(2, 3), (4, 5), (6, 7), (8, 9), (12, 13), (14, 15), (16, 17), (0, 18), (24, 25), (26, 27), (0, 28),
           (0, 29), (0, 30), (0, 21), (0, 22), (19, 31), (0, 0), (13, 12), (15, 14)]
# generally different values
F_DIFF = [(0, 1), (0, 10), (0, 11), (0, 16), (2, 8), (24, 2), (0, 12), (1, 0), (10, 11), (16, 0), (4, 6), (19, 20),
          (0, 19), (0, 20), (23, 0)]

# Special-case branches of the anchored Rust code and the generated class that executes each:
#   BigInt::cmp returns at the first differing limb from the top .... 'nb_limb<i>' neighbours (differ in exactly
#        one limb, every position), 'equal' (falls through all limbs), dense
#   Fp::cmp compares into_bigint() (NOT the Montgomery limbs) ........ every dense pair (Montgomery order differs
#        from the integer order for half of the pairs), 'R_mod_p', 'Rinv' (Montgomery form [1,0,..])
#   Fp::is_zero / is_one (== ZERO / == ONE = R) ...................... 'zero','one' operands, exprs 19/20/31, a-a,
#        (p-1)*(p-1), (a/b)*b with a = 1
#   QuadExtField::cmp: c1 first, c0 only on Equal ..................... 'lex_conflict' (c0 order opposite to c1
#        order), 'top_equal' (c1 equal, c0 differs), 'single_coord'
#   CubicExtField::cmp: c2, then c1, then c0 .......................... same classes on Fq3 / Fq6 / Fq12
#   QuadExt/CubicExt is_zero / is_one (c0.is_one && rest zero) ........ 'one', 'base_embedded', 'single_coord'
#   sw Projective ==: self.is_zero -> other.is_zero ................... 'id_id' (both identity, different X,Y),
#        other.is_zero -> false: 'pt_id'; x equal && y differs: 'sign' (A vs -A); x differs: 'distinct'
#   sw Hash: into_affine: identity / z.is_one shortcut / inversion .... identity exprs 15-20, norm flag (Z = 1),
#        rescaled representatives (lambda != 1)
#   te Projective ==: is_zero branches, cross-multiplication .......... same classes on jubjub; identity (0,z,0,z)
#   PairingOutput::is_zero = is_one of the field ...................... gt_rel with 'one' operands, expr 43
#   DensePolynomial::is_zero: empty || all zero ....................... 'p_zero', 'cancel' (p - p, (p+q)-q)
#   Dense add/sub: degree comparison branches, truncate ............... len(p) <,=,> len(q), leading terms cancel


def gen_field(rng, name, n):
    f = FIELDS[name]
    p, N, d = f['params'][0], f['N'], DEG[f['kind']]
    H = [head(f), f['params']]
    for _ in range(n):
        x, cx = ext_operand(rng, p, N, d)
        y, cy = ext_operand(rng, p, N, d)
        z, cz = ext_operand(rng, p, N, d)
        r = rng.randrange(10)
        if r < 4:
            e = rng.choice(F_EQUAL); cls = 'same_value'
        elif r < 6:
            e = rng.choice(F_DIFF); cls = 'diff_expr'
        elif r == 6:
            # neighbours: y differs from x in exactly one coordinate by +-1 or in one limb
            y = list(x)
            i = rng.randrange(d)
            if rng.randrange(2):
                y[i] = (y[i] + rng.choice([1, p - 1])) % p
            else:
                y[i] = (y[i] ^ (1 << (64 * rng.randrange(N) + rng.randrange(64)))) % p
            e = (0, 1); cls = 'neighbour_coord%d' % (i if d <= 3 else i * 3 // d)
        elif r == 7 and d > 1:
            # lexicographic conflict: top coordinate says <, bottom coordinate says >
            lo, hi = sorted([fp_operand(rng, p, N)[0], fp_operand(rng, p, N)[0]])
            y = list(x)
            x[d - 1], y[d - 1] = lo, hi
            x[0], y[0] = sorted([x[0], fp_operand(rng, p, N)[0]], reverse=True)
            e = (0, 1); cls = 'lex_conflict' if lo != hi else 'top_equal'
        elif r == 8:
            # values that are zero / one only after computation
            which = rng.randrange(5)
            if which == 0:
                y = list(x); e = (8, 19); cls = 'computed_zero'           # x - x vs zero()
            elif which == 1:
                x = [p - 1] + [0] * (d - 1); e = (12, 20); cls = 'computed_one'   # (-1)^2 vs one()
            elif which == 2:
                x = [1] + [0] * (d - 1); e = (18, 20); cls = 'computed_one'       # (1/y)*y vs one()
            elif which == 3:
                x = [p - 1] + [0] * (d - 1); e = (10, 19); cls = 'computed_zero'  # -1 + 1 vs zero()
            else:
                y = list(x); e = (2, 14); cls = 'same_value'                      # x + x vs double
        else:
            e = (0, 1); cls = 'pair'
            if rng.randrange(3) == 0:
                y = list(x); cls = 'equal'
        yield 'fld_rel', H + [x, y, z, list(e)], '%s/%s/%s' % (name, cls, cx)


def gen_field_exhaustive(rng, name, exprs):
    """all ordered pairs of a toy field"""
    f = FIELDS[name]
    p, d = f['params'][0], DEG[f['kind']]
    H = [head(f), f['params']]
    els = [[i % p, i // p][:d] for i in range(p ** d)]
    for x in els:
        for y in els:
            yield 'fld_rel', H + [x, y, [0] * d, list(rng.choice(exprs))], '%s/exhaustive' % name


def gen_sort(rng, name, n):
    f = FIELDS[name]
    p, N, d = f['params'][0], f['N'], DEG[f['kind']]
    H = [head(f), f['params']]
    for _ in range(n):
        pool = [ext_operand(rng, p, N, d)[0] for _ in range(rng.randrange(1, 6))]
        v = [list(rng.choice(pool)) for _ in range(rng.randrange(0, 9))]
        # near-duplicates differing in one coordinate
        for w in v:
            if rng.randrange(3) == 0:
                i = rng.randrange(d)
                w[i] = (w[i] + rng.choice([1, p - 1])) % p
        yield 'fld_sort', H + v, '%s/sort%d' % (name, len(v))


def big_operand(rng, n):
    W = 1 << (64 * n)
    k = rng.randrange(9)
    if k == 0:
        return 0, 'zero'
    if k == 1:
        return 1, 'one'
    if k == 2:
        return W - 1, 'all_ones'
    if k == 3:
        return 1 << rng.randrange(64 * n), 'pow2'
    if k == 4:
        return ((1 << (64 * rng.randrange(1, n + 1))) - rng.choice([0, 1, 2])) % W, 'limb_boundary'
    if k == 5:
        return rng.getrandbits(64 * rng.randrange(1, n + 1)), 'dense_short'
    return rng.getrandbits(64 * n), 'dense'


B_EQUAL = [(2, 3), (4, 5), (0, 6), (7, 9), (11, 12), (0, 0)]
B_DIFF = [(0, 1), (0, 10), (2, 0), (7, 8), (0, 4)]


def gen_big(rng, n):
    for _ in range(n):
        N = rng.randrange(1, 7)
        a, ca = big_operand(rng, N)
        b, cb = big_operand(rng, N)
        r = rng.randrange(6)
        if r < 2:
            e = rng.choice(B_EQUAL); cls = 'same_value'
        elif r == 2:
            e = rng.choice(B_DIFF); cls = 'diff_expr'
        elif r == 3:
            i = rng.randrange(N)
            b = a ^ (1 << (64 * i + rng.randrange(64))); e = (0, 1); cls = 'nb_limb%d' % i
        elif r == 4:
            b = a; e = (0, 1); cls = 'equal'
        else:
            e = (0, 1); cls = 'pair'
        yield 'big_rel', [[N], limbs(a, N), limbs(b, N), list(e)], 'big%d/%s/%s' % (N, cls, ca)
    for _ in range(max(4, n // 10)):
        N = rng.randrange(1, 7)
        pool = [big_operand(rng, N)[0] for _ in range(rng.randrange(1, 6))]
        v = [rng.choice(pool) ^ (rng.randrange(3) == 0 and (1 << (64 * rng.randrange(N))) or 0) for _ in range(rng.randrange(0, 9))]
        yield 'big_sort', [[N]] + [limbs(x, N) for x in v], 'big%d/sort%d' % (N, len(v))


# ---------------------------------------------------------------- curve points
P_EQUAL = [(2, 3), (2, 4), (2, 5), (4, 5), (9, 10), (11, 12), (13, 14), (0, 18), (21, 22), (0, 0), (6, 8), (6, 6),
           (8, 8)]
P_EQUAL_SMALLK = [(6, 7), (7, 8), (7, 7)]
P_IDENT = [15, 16, 17, 19, 20]
P_DIFF = [(0, 13), (6, 22), (2, 0), (11, 0), (13, 1), (0, 1)]


def nz_coords(rng, p, d):
    k = rng.randrange(4)
    if k == 0:
        return [1] + [0] * (d - 1)
    if k == 1:
        return [p - 1] + [0] * (d - 1)
    while True:
        v = [rng.randrange(p) if rng.randrange(3) else 0 for _ in range(d)]
        if any(v):
            return v


def gen_curve(rng, op, c, r, n, tiny=False, fixed=None):
    fld = c['params']
    p, d = fld[0], DEG[c['kind']]
    H = [[c['cfg'], c['kind'], c['N']], fld, c['a'], c['b'] if op == 'sw_rel' else c['d'], c['G']]
    for _ in range(n):
        if r < 100:
            big = lambda: rng.randrange(0, r + 2)
        elif tiny:
            big = lambda: rng.randrange(0, 16)
        else:
            big = lambda: rng.choice([rng.randrange(1, r), rng.randrange(1, 1 << 64), rng.randrange(0, 40)])
        s1, s2 = big(), big()
        if fixed is not None:
            s1, s2 = fixed[_ % len(fixed)]
        k, l = big(), big()
        w = rng.choice([2, 3, 4, 5])
        t = rng.randrange(12)
        lamL, lamR = nz_coords(rng, p, d), nz_coords(rng, p, d)
        nL, nR = int(rng.randrange(4) == 0), int(rng.randrange(4) == 0)
        raw = [rng.randrange(p) if rng.randrange(4) else rng.choice([0, 1]) for _ in range(2 * d)]
        if op == 'te_rel':
            raw = nz_coords(rng, p, d)
        if t < 3:
            e = rng.choice(P_EQUAL); cls = 'same_point'
        elif t == 3:
            e = rng.choice(P_EQUAL_SMALLK); k = rng.choice([0, 1, 2, 3, rng.randrange(40)]); cls = 'mul_paths_small'
        elif t == 4:
            kk = rng.choice([0, 1, 2, r - 1, r, r - 2]) if not tiny else rng.choice([0, 1, 2])
            k = kk; e = rng.choice([(6, 8), (6, 6), (9, 10), (21, 22), (0, 18)]); cls = 'mul_boundary_k'
            if kk >= r - 1 and e in ((21, 22), (0, 18)):
                e = (6, 8)                      # keep k + 1 <= r for the wNAF path
        elif t == 5:
            e = (rng.choice(P_IDENT), rng.choice(P_IDENT)); cls = 'id_id'
        elif t == 6:
            e = rng.choice([(0, rng.choice(P_IDENT)), (rng.choice(P_IDENT), 2)]); cls = 'pt_id'
        elif t == 7:
            e = (0, 13); cls = 'sign'
        elif t == 8:
            e = rng.choice(P_DIFF); cls = 'distinct'
        elif t == 9:
            s2 = s1; e = rng.choice([(0, 1), (2, 11), (2, 12), (4, 11)]); cls = 'A_eq_B'
            if fixed is not None and fixed[_ % len(fixed)][0] != fixed[_ % len(fixed)][1]:
                s1, s2 = fixed[_ % len(fixed)]; cls = 'pair'
        elif t == 10 and not tiny:
            s2 = (r - s1) % r if s1 < r else 1; e = rng.choice([(2, 16), (4, 15), (1, 13), (3, 17)]); cls = 'A_eq_negB'
            if fixed is not None and (fixed[_ % len(fixed)][0] + fixed[_ % len(fixed)][1]) % r:
                s1, s2 = fixed[_ % len(fixed)]; cls = 'pair'
        else:
            l = (r - k) % r if not tiny else l; e = (9, 10); cls = 'k_plus_l_eq_r' if not tiny else 'same_point'
            if l == 0:
                l = 1
        if 7 in e:
            k = k % 41
        if (e[0] in (9, 8) or e[1] in (9, 8)) and not tiny:
            k, l = k % r, l % r
        yield op, H + [[s1, s2, k, l, w], raw, lamL, lamR, [e[0], e[1], nL, nR]], \
            '%s/%s%s' % (c['name'], cls, '/rescaled' if lamL != lamR else '')


# ---------------------------------------------------------------- polynomials
PL_EQUAL = [(2, 3), (4, 5), (6, 7), (0, 8), (0, 9), (10, 11), (0, 12), (13, 14), (0, 0)]
PL_DIFF = [(0, 1), (2, 6), (0, 13), (4, 2), (0, 11)]


def gen_poly(rng, n):
    f = FIELDS['bls12_381_fr']
    p = f['params'][0]
    H = [head(f), f['params']]

    def poly(maxlen):
        ln = rng.choice([0, 1, 2, 3, rng.randrange(maxlen + 1)])
        v = [fp_operand(rng, p, 4)[0] if rng.randrange(4) else 0 for _ in range(ln)]
        if rng.randrange(3) == 0:
            v += [0] * rng.randrange(1, 4)           # non-canonical input: trailing zeros
        return v
    for _ in range(n):
        a, b = poly(9), poly(9)
        r = rng.randrange(8)
        if r < 3:
            e = rng.choice(PL_EQUAL); cls = 'same_poly'
        elif r == 3:
            e = rng.choice(PL_DIFF); cls = 'diff_expr'
        elif r == 4 and a:
            b = list(a); i = rng.randrange(len(a)); b[i] = (b[i] + 1) % p; e = (0, 1); cls = 'nb_coeff'
        elif r == 5 and a:
            # leading terms cancel in p + q / p - q
            b = list(a); b[-1] = (p - b[-1]) % p if rng.randrange(2) else b[-1]
            if len(b) > 1:
                b[0] = (b[0] + 1) % p
            e = rng.choice([(2, 3), (6, 7), (9, 0), (0, 9)]); cls = 'lead_cancel'
        elif r == 6:
            b = a + [0, 0]; e = (0, 1); cls = 'trailing_zeros'
        else:
            e = (0, 1); cls = 'pair'
        yield 'poly_rel', H + [a, b, list(e)], 'poly/%s/len%s' % (cls, 'lt' if len(a) < len(b) else ('eq' if len(a) == len(b) else 'gt'))


def gen_gt(rng, n):
    f = FIELDS['bls12_381_fq12']
    p, N = f['params'][0], f['N']
    H = [head(f), f['params']]
    for _ in range(n):
        x, cx = ext_operand(rng, p, N, 12)
        y, cy = ext_operand(rng, p, N, 12)
        r = rng.randrange(6)
        if r == 0:
            e = (40, 41); cls = 'same_value'
        elif r == 1:
            e = rng.choice([(24, 40), (40, 25), (2, 3), (0, 21)]); cls = 'same_value'
        elif r == 2:
            e = rng.choice([(43, 20), (0, 43), (43, 19), (21, 43)]); cls = 'identity'
        elif r == 3:
            y = list(x); i = rng.randrange(12); y[i] = (y[i] + 1) % p; e = (0, 1); cls = 'neighbour'
        else:
            e = (0, 1); cls = 'pair'
        yield 'gt_rel', H + [x, y, [0] * 12, list(e)], 'gt/%s/%s' % (cls, cx)


def gen_gt_pair(rng, n):
    f = FIELDS['bls12_381_fq12']
    g = PARAMS['gt']['bls12_381']['g']
    r = FIELDS['bls12_381_fr']['params'][0]
    H = [head(f), f['params'], g]
    sc = lambda: rng.choice([0, 1, 2, r - 1, rng.randrange(r), rng.randrange(1 << 64)])
    for _ in range(n):
        s1, s2, t1, t2 = sc(), sc(), sc(), sc()
        mode = rng.randrange(5)
        same = rng.randrange(3) > 0
        cls = 'distinct'
        if same:
            cls = 'same_value'
            e = s1 * s2 % r
            if mode in (0, 1):
                t1, t2 = rng.choice([(s2, s1), (e, 1), (1, e), (s1, s2)])
            elif mode in (2, 3):
                t2 = (e - t1) % r
            else:
                t1, t2 = (r - s1) % r, s2
        if s1 * s2 % r == 0:
            cls += '/identity'
        yield 'gt_pair', H + [[s1, s2, t1, t2, mode, r]], 'gt_pair/mode%d/%s' % (mode, cls)


def gen(rng, tier):
    scale = 1 if tier == 'quick' else 25
    # configuration constants
    for name, f in sorted(FIELDS.items()):
        yield 'fld_params', [head(f), f['params']], 'params'
    for name, c in sorted(SW.items()):
        yield 'sw_params', [[c['cfg'], c['kind'], c['N']], c['params'], c['a'], c['b'], c['G']], 'params'
    for name, c in sorted(TE.items()):
        yield 'te_params', [[c['cfg'], c['kind'], c['N']], c['params'], c['a'], c['d'], c['G']], 'params'
    # toy fields: every ordered pair
    yield from gen_field_exhaustive(rng, 'f13', F_EQUAL + F_DIFF)
    if tier == 'thorough':
        yield from gen_field_exhaustive(rng, 'f13_2', [(0, 1), (0, 1), (2, 3), (24, 25), (0, 16)])
    per = {'bls12_381_fq': 400, 'bls12_381_fr': 300, 'secp256k1_fq': 300, 'secp256k1_fr': 200, 'mnt6_753_fq': 150,
           'f13': 100, 'm61': 200, 'goldilocks': 300, 'jubjub_fq': 100, 'bls12_381_fq2': 400, 'f13_2': 400,
           'mnt6_753_fq3': 200, 'bls12_381_fq6': 250, 'bls12_381_fq12': 250}
    for name in sorted(FIELDS):
        yield from gen_field(rng, name, per[name] * scale)
        yield from gen_sort(rng, name, max(10, per[name] // 10) * scale)
    yield from gen_big(rng, 1500 * scale)
    for name, c in sorted(SW.items()):
        c = dict(c, name=name)
        if name == 'toy_sw13':
            # every ordered pair (A, B) of the 19 points (s = 0 is the identity), several expression pairs each
            pairs = [(i, j) for i in range(19) for j in range(19)]
            yield from gen_curve(rng, 'sw_rel', c, 19, len(pairs) * (2 if tier == 'quick' else 12), fixed=pairs)
            continue
        r = FIELDS[c['fr']]['params'][0]
        yield from gen_curve(rng, 'sw_rel', c, r, {'bls12_381_g1': 160, 'bls12_381_g2': 100, 'secp256k1': 160}[name] * scale)
        yield from gen_curve(rng, 'sw_rel', c, r, 12 * scale, tiny=True)
    for name, c in sorted(TE.items()):
        c = dict(c, name=name)
        if name == 'toy_te13':
            pairs = [(i, j) for i in range(5) for j in range(5)]
            yield from gen_curve(rng, 'te_rel', c, 5, len(pairs) * (12 if tier == 'quick' else 100), fixed=pairs)
            continue
        yield from gen_curve(rng, 'te_rel', c, JUBJUB_R, 200 * scale)
        yield from gen_curve(rng, 'te_rel', c, JUBJUB_R, 12 * scale, tiny=True)
    yield 'gt_params', [head(FIELDS['bls12_381_fq12']), FIELDS['bls12_381_fq12']['params'], PARAMS['gt']['bls12_381']['g']], 'params'
    yield from gen_gt(rng, 150 * scale)
    yield from gen_gt_pair(rng, 48 * (1 if tier == 'quick' else 8))
    yield from gen_poly(rng, 500 * scale)


def nontrivial(case, out):
    return case['op'] not in ('fld_params', 'sw_params', 'te_params', 'gt_params') and any(any(x != 0 for x in a) for a in case['args'][2:])


def xcheck_ok(case):
    """cases cheap enough for in-kernel vm_compute on stdlib Z"""
    op = case['op']
    if op in ('sw_rel', 'te_rel'):
        # scalar multiplications + inversions on 255..381-bit Z take minutes in the kernel: toy curves only
        return case['args'][1][0] < 1000
    if op == 'gt_pair':
        return False            # 255-bit exponentiation in Fq12
    if op in ('fld_rel', 'fld_sort', 'gt_rel', 'fld_params', 'gt_params'):
        kind, N = case['args'][0][1], case['args'][0][2]
        if kind >= 6:
            return False        # Fq6/Fq12 products on 381-bit Z
        if N >= 12 and kind > 1:
            return False
        if op == 'fld_rel' and 18 in case['args'][5] or op == 'fld_rel' and 28 in case['args'][5]:
            return N <= 4       # inversions
    return True


RULE = ('pairs of values produced by different operation sequences (commuted / re-associated / distributed field '
        'expressions, three scalar-multiplication paths, rescaled and normalised projective representatives, '
        'identity representatives with arbitrary coordinates, polynomial operator chains) plus unequal neighbours '
        '(one limb / one coordinate / sign), over boundary operand classes; every ordered pair of F_13 (and of '
        'F_13^2 in the thorough tier); non-trivial = some operand after the configuration arguments is non-zero; '
        'distinct = distinct case lines')
XCHECK = {'quick': 160, 'thorough': 600}
TRUSTED = ['std::collections::hash_map::DefaultHasher (SipHash-1-3, zero keys) is used only to compare two hashes '
           'with each other; the hasher is not modelled (a hash is an arbitrary function of the hashed structure)',
           'educe / derive(PartialEq, Hash) are modelled as field-wise equality / hashing of all fields',
           'coq/C01 Montgomery model (into_bigint) and coq/C03 curve models are imported, see their packages']
ASSUMPTIONS = ['default features, x86-64 (the unrolled top-down loop of BigInt::cmp)',
               'Fp elements are always reduced Montgomery representatives (C01 invariant): wf, length N, val < p']
HYPOTHESES = ['good_field F (field_theory of the dictionary operations with Leibniz equality, feqb decides '
              'equality, 1+1 <> 0) for the curve-point theorems', 'val m odd (modulus) for the Fp theorems']
