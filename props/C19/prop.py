"""C19: equality, ordering and hashing coincide with mathematical identity.
Case generator + property metadata.  Constants come from params.json (dumped from the compiled
crates by mkparams.py and re-validated on every run by the *_params cases)."""
import sys, os, json
sys.path.insert(0, '/verif/lib')

OPS = {'fld_rel': 1, 'fld_sort': 2, 'fld_params': 3, 'big_rel': 4, 'big_sort': 5, 'sw_rel': 6, 'sw_params': 7,
       'te_rel': 8, 'te_params': 9, 'gt_rel': 10, 'gt_pair': 11, 'poly_rel': 12, 'gt_params': 13, 'mvpoly_rel': 14,
       'pt_decoded_rel': 15}

PARAMS = json.load(open(os.path.join(os.path.dirname(os.path.abspath(__file__)), 'params.json')))
FIELDS, SW, TE = PARAMS['fields'], PARAMS['sw'], PARAMS['te']
JUBJUB_R = 6554484396890773809930967563523245729705921265872317281365359162392183254199
M64 = (1 << 64) - 1
DEG = {1: 1, 2: 2, 3: 3, 6: 6, 12: 12}


def head(f):
    return [f['cfg'], f['kind'], f['N']]


def limbs(v, n):
    return [(v >> (64 * i)) & M64 for i in range(n)]


# ---------------------------------------------------------------- operands
def fp_operand(rng, p, N):
    """canonical residue from boundary classes; returns (value, class)"""
    k = rng.randrange(13)
    if k == 0:
        return 0, 'zero'
    if k == 1:
        return 1, 'one'
    if k == 2:
        return p - 1, 'minus_one'
    if k == 3:
        return rng.choice([2, 3, p - 2, (p - 1) // 2, (p + 1) // 2]) % p, 'small_or_half'
    if k == 4:
        e = 64 * rng.randrange(1, N + 1)
        return ((1 << e) - rng.choice([0, 1, 2])) % p, 'limb_boundary'
    if k == 5:
        return (1 << (64 * N)) % p, 'R_mod_p'          # the Montgomery form of 1 read as a residue
    if k == 6:
        return (p - 1 - rng.randrange(1 << rng.randrange(1, 60))) % p, 'near_p'
    if k == 7:
        return rng.getrandbits(64 * rng.randrange(1, N + 1)) % p, 'dense_short'
    if k == 8:
        return pow(2, -64 * N, p) if p > 2 else 0, 'Rinv'   # Montgomery form is the limb vector [1,0,..]
    return rng.randrange(p), 'dense'


def ext_operand(rng, p, N, d):
    if d == 1:
        v, c = fp_operand(rng, p, N)
        return [v], c
    k = rng.randrange(8)
    if k == 0:
        return [0] * d, 'zero'
    if k == 1:
        return [1] + [0] * (d - 1), 'one'
    if k == 2:                                   # only one non-zero coordinate
        i = rng.randrange(d)
        v = [0] * d
        v[i] = fp_operand(rng, p, N)[0]
        return v, 'single_coord'
    if k == 3:                                   # base-field element embedded
        return [fp_operand(rng, p, N)[0]] + [0] * (d - 1), 'base_embedded'
    return [fp_operand(rng, p, N)[0] for _ in range(d)], 'mixed'


# expression pairs that denote the SAME value for all operands
F_EQUAL = [(2, 3), (4, 5), (6, 7), (8, 9), (12, 13), (14, 15), (16, 17), (0, 18), (24, 25), (26, 27), (0, 28),
           (0, 29), (0, 30), (0, 21), (0, 22), (19, 31), (0, 0), (13, 12), (15, 14)]
# generally different values
F_DIFF = [(0, 1), (0, 10), (0, 11), (0, 16), (2, 8), (24, 2), (0, 12), (1, 0), (10, 11), (16, 0), (4, 6), (19, 20),
          (0, 19), (0, 20), (23, 0)]

# Special-case branches of the anchored Rust code and the generated class that executes each:
#   BigInt::cmp returns at the first differing limb from the top .... 'nb_limb<i>' neighbours (differ in exactly
#        one limb, every position), 'equal' (falls through all limbs), dense
#   Fp::cmp compares into_bigint() (NOT the Montgomery limbs) ........ every dense pair (Montgomery order differs
#        from the integer order for half of the pairs), 'R_mod_p', 'Rinv' (Montgomery form [1,0,..])
#   Fp::is_zero / is_one (== ZERO / == ONE = R) ...................... 'zero','one' operands, exprs 19/20/31, a-a,
#        (p-1)*(p-1), (a/b)*b with a = 1
#   QuadExtField::cmp: c1 first, c0 only on Equal ..................... 'lex_conflict' (c0 order opposite to c1
#        order), 'top_equal' (c1 equal, c0 differs), 'single_coord'
#   CubicExtField::cmp: c2, then c1, then c0 .......................... same classes on Fq3 / Fq6 / Fq12
#   QuadExt/CubicExt is_zero / is_one (c0.is_one && rest zero) ........ 'one', 'base_embedded', 'single_coord'
#   sw Projective ==: self.is_zero -> other.is_zero ................... 'id_id' (both identity, different X,Y),
#        other.is_zero -> false: 'pt_id'; x equal && y differs: 'sign' (A vs -A); x differs: 'distinct'
#   sw Hash: into_affine: identity / z.is_one shortcut / inversion .... identity exprs 15-20, norm flag (Z = 1),
#        rescaled representatives (lambda != 1)
#   te Projective ==: is_zero branches, cross-multiplication .......... same classes on jubjub; identity (0,z,0,z)
#   te Projective::is_zero: x == 0 && y == z && y != 0 && t == 0 ...... every conjunct is decisive on some raw point:
#        'raw:ord2' (0 : -z : 0 : z) has x = t = 0, y != 0 but y != z; 'raw:ord4' (x : 0 : 0 : z) has t = 0, y = 0;
#        generic points have x != 0; the identity in representatives (0 : z : 0 : z), z != 1
#   sw Projective::is_zero (z == 0) / Affine.infinity .................. 'raw:ord2' (y = 0, P == -P, not the identity),
#        (0, 0) on y^2 = x^3 + x (both coordinates zero, infinity = false), 'raw:x0' (0, +-2) on bls12_381 G1
#   sw double_in_place on y = 0 (Z3 = 0), add with U1 == U2 && S1 != S2 'raw:ord2' in A+A / double / A+(-A) on the
#        toy curves a = 0 (y^2 = x^3 + 1) and a != 0 (y^2 = x^3 + x)
#   normalize_batch: is_zero arm / batch inversion skipping zeros ..... every pair (identity on either side)
#   PairingOutput::is_zero = is_one of the field ...................... gt_rel with 'one' operands, expr 43
#   DensePolynomial::is_zero: empty || all zero ....................... 'p_zero', 'cancel' (p - p, (p+q)-q)
#   Dense add/sub: degree comparison branches, truncate ............... len(p) <,=,> len(q), leading terms cancel


def gen_field(rng, name, n):
    f = FIELDS[name]
    p, N, d = f['params'][0], f['N'], DEG[f['kind']]
    H = [head(f), f['params']]
    for _ in range(n):
        x, cx = ext_operand(rng, p, N, d)
        y, cy = ext_operand(rng, p, N, d)
        z, cz = ext_operand(rng, p, N, d)
        r = rng.randrange(10)
        if r < 4:
            e = rng.choice(F_EQUAL); cls = 'same_value'
        elif r < 6:
            e = rng.choice(F_DIFF); cls = 'diff_expr'
        elif r == 6:
            # neighbours: y differs from x in exactly one coordinate by +-1 or in one limb
            y = list(x)
            i = rng.randrange(d)
            if rng.randrange(2):
                y[i] = (y[i] + rng.choice([1, p - 1])) % p
            else:
                y[i] = (y[i] ^ (1 << (64 * rng.randrange(N) + rng.randrange(64)))) % p
            e = (0, 1); cls = 'neighbour_coord%d' % (i if d <= 3 else i * 3 // d)
        elif r == 7 and d > 1:
            # lexicographic conflict: top coordinate says <, bottom coordinate says >
            lo, hi = sorted([fp_operand(rng, p, N)[0], fp_operand(rng, p, N)[0]])
            y = list(x)
            x[d - 1], y[d - 1] = lo, hi
            x[0], y[0] = sorted([x[0], fp_operand(rng, p, N)[0]], reverse=True)
            e = (0, 1); cls = 'lex_conflict' if lo != hi else 'top_equal'
        elif r == 8:
            # values that are zero / one only after computation
            which = rng.randrange(5)
            if which == 0:
                y = list(x); e = (8, 19); cls = 'computed_zero'           # x - x vs zero()
            elif which == 1:
                x = [p - 1] + [0] * (d - 1); e = (12, 20); cls = 'computed_one'   # (-1)^2 vs one()
            elif which == 2:
                x = [1] + [0] * (d - 1); e = (18, 20); cls = 'computed_one'       # (1/y)*y vs one()
            elif which == 3:
                x = [p - 1] + [0] * (d - 1); e = (10, 19); cls = 'computed_zero'  # -1 + 1 vs zero()
            else:
                y = list(x); e = (2, 14); cls = 'same_value'                      # x + x vs double
        else:
            e = (0, 1); cls = 'pair'
            if rng.randrange(3) == 0:
                y = list(x); cls = 'equal'
        yield 'fld_rel', H + [x, y, z, list(e)], '%s/%s/%s' % (name, cls, cx)


def gen_field_exhaustive(rng, name, exprs):
    """all ordered pairs of a toy field"""
    f = FIELDS[name]
    p, d = f['params'][0], DEG[f['kind']]
    H = [head(f), f['params']]
    els = [[i % p, i // p][:d] for i in range(p ** d)]
    for x in els:
        for y in els:
            yield 'fld_rel', H + [x, y, [0] * d, list(rng.choice(exprs))], '%s/exhaustive' % name


def gen_sort(rng, name, n):
    f = FIELDS[name]
    p, N, d = f['params'][0], f['N'], DEG[f['kind']]
    H = [head(f), f['params']]
    for _ in range(n):
        pool = [ext_operand(rng, p, N, d)[0] for _ in range(rng.randrange(1, 6))]
        v = [list(rng.choice(pool)) for _ in range(rng.randrange(0, 9))]
        # near-duplicates differing in one coordinate
        for w in v:
            if rng.randrange(3) == 0:
                i = rng.randrange(d)
                w[i] = (w[i] + rng.choice([1, p - 1])) % p
        yield 'fld_sort', H + v, '%s/sort%d' % (name, len(v))


def big_operand(rng, n):
    W = 1 << (64 * n)
    k = rng.randrange(9)
    if k == 0:
        return 0, 'zero'
    if k == 1:
        return 1, 'one'
    if k == 2:
        return W - 1, 'all_ones'
    if k == 3:
        return 1 << rng.randrange(64 * n), 'pow2'
    if k == 4:
        return ((1 << (64 * rng.randrange(1, n + 1))) - rng.choice([0, 1, 2])) % W, 'limb_boundary'
    if k == 5:
        return rng.getrandbits(64 * rng.randrange(1, n + 1)), 'dense_short'
    return rng.getrandbits(64 * n), 'dense'


B_EQUAL = [(2, 3), (4, 5), (0, 6), (7, 9), (11, 12), (0, 0)]
B_DIFF = [(0, 1), (0, 10), (2, 0), (7, 8), (0, 4)]


def gen_big(rng, n):
    for _ in range(n):
        N = rng.randrange(1, 7)
        a, ca = big_operand(rng, N)
        b, cb = big_operand(rng, N)
        r = rng.randrange(6)
        if r < 2:
            e = rng.choice(B_EQUAL); cls = 'same_value'
        elif r == 2:
            e = rng.choice(B_DIFF); cls = 'diff_expr'
        elif r == 3:
            i = rng.randrange(N)
            b = a ^ (1 << (64 * i + rng.randrange(64))); e = (0, 1); cls = 'nb_limb%d' % i
        elif r == 4:
            b = a; e = (0, 1); cls = 'equal'
        else:
            e = (0, 1); cls = 'pair'
        yield 'big_rel', [[N], limbs(a, N), limbs(b, N), list(e)], 'big%d/%s/%s' % (N, cls, ca)
    for _ in range(max(4, n // 10)):
        N = rng.randrange(1, 7)
        pool = [big_operand(rng, N)[0] for _ in range(rng.randrange(1, 6))]
        v = [rng.choice(pool) ^ (rng.randrange(3) == 0 and (1 << (64 * rng.randrange(N))) or 0) for _ in range(rng.randrange(0, 9))]
        yield 'big_sort', [[N]] + [limbs(x, N) for x in v], 'big%d/sort%d' % (N, len(v))



# ---------------------------------------------------------------- points anywhere on a curve (plain modular arithmetic)
def sqrt_p(a, p):
    """square root mod an odd prime (Tonelli-Shanks), None for a non-residue"""
    a %= p
    if a == 0:
        return 0
    if pow(a, (p - 1) // 2, p) != 1:
        return None
    if p % 4 == 3:
        return pow(a, (p + 1) // 4, p)
    q, s = p - 1, 0
    while q % 2 == 0:
        q //= 2; s += 1
    z = 2
    while pow(z, (p - 1) // 2, p) != p - 1:
        z += 1
    m, c, t, x = s, pow(z, q, p), pow(a, q, p), pow(a, (q + 1) // 2, p)
    while t != 1:
        i, t2 = 0, t
        while t2 != 1:
            t2 = t2 * t2 % p; i += 1
        b = pow(c, 1 << (m - i - 1), p)
        m, c, t, x = i, b * b % p, t * b * b % p, x * b % p
    return x


class Fld:
    """F_p (elements [v]) or F_p[u]/(u^2 - nr) (elements [c0, c1]): just enough to walk on a curve"""
    def __init__(self, params):
        self.p = params[0]
        self.d = 1 if len(params) == 1 else 2
        self.nr = params[1] if self.d == 2 else None
        self.zero = [0] * self.d
        self.one = [1] + [0] * (self.d - 1)

    def add(self, a, b): return [(x + y) % self.p for x, y in zip(a, b)]
    def sub(self, a, b): return [(x - y) % self.p for x, y in zip(a, b)]
    def neg(self, a): return [(-x) % self.p for x in a]
    def small(self, n): return [n % self.p] + [0] * (self.d - 1)

    def mul(self, a, b):
        p = self.p
        if self.d == 1:
            return [a[0] * b[0] % p]
        return [(a[0] * b[0] + self.nr * a[1] * b[1]) % p, (a[0] * b[1] + a[1] * b[0]) % p]

    def inv(self, a):
        p = self.p
        if self.d == 1:
            return [pow(a[0], -1, p)]
        n = pow((a[0] * a[0] - self.nr * a[1] * a[1]) % p, -1, p)
        return [a[0] * n % p, (-a[1]) * n % p]

    def sqrt(self, a):
        p = self.p
        if self.d == 1:
            r = sqrt_p(a[0], p)
            return None if r is None else [r]
        if a[1] == 0:
            r = sqrt_p(a[0], p)
            if r is not None:
                return [r, 0]
            r = sqrt_p(a[0] * pow(self.nr, -1, p), p)
            return None if r is None else [0, r]
        n = sqrt_p(a[0] * a[0] - self.nr * a[1] * a[1], p)      # norm
        if n is None:
            return None
        for sg in (n, -n):
            x0 = sqrt_p((a[0] + sg) * pow(2, -1, p), p)
            if x0:
                r = [x0, a[1] * pow(2 * x0, -1, p) % p]
                if self.mul(r, r) == [a[0] % p, a[1] % p]:
                    return r
        return None

    def rand(self, rng): return [rng.randrange(self.p) for _ in range(self.d)]


def sw_add_aff(K, a, P, Q):
    """textbook chord-and-tangent law; None = infinity"""
    if P is None:
        return Q
    if Q is None:
        return P
    (x1, y1), (x2, y2) = P, Q
    if x1 == x2:
        if K.add(y1, y2) == K.zero:
            return None
        l = K.mul(K.add(K.mul(K.small(3), K.mul(x1, x1)), a), K.inv(K.add(y1, y1)))
    else:
        l = K.mul(K.sub(y2, y1), K.inv(K.sub(x2, x1)))
    x3 = K.sub(K.sub(K.mul(l, l), x1), x2)
    return (x3, K.sub(K.mul(l, K.sub(x1, x3)), y1))


def te_add_aff(K, a, d, P, Q):
    """Edwards addition law (complete for the curves used here: a square, d non-square)"""
    (x1, y1), (x2, y2) = P, Q
    k = K.mul(d, K.mul(K.mul(x1, x2), K.mul(y1, y2)))
    x3 = K.mul(K.add(K.mul(x1, y2), K.mul(y1, x2)), K.inv(K.add(K.one, k)))
    y3 = K.mul(K.sub(K.mul(y1, y2), K.mul(a, K.mul(x1, x2))), K.inv(K.sub(K.one, k)))
    return (x3, y3)


def smul(add, zero, k, P):
    R = zero
    while k:
        if k & 1:
            R = add(R, P)
        P = add(P, P)
        k >>= 1
    return R


def point_order(add, zero, P, bound):
    Q, n = P, 1
    while Q != zero:
        Q = add(Q, P); n += 1
        if n > bound:
            return None
    return n


def sw_raw_points(rng, c, r, nrand):
    """labelled points anywhere on y^2 = x^3 + a x + b (as x ++ y): the whole curve for the toy curves; otherwise
    points with a zero coordinate when they exist, random points of E(F_q) found by solving for y (outside the
    prime-order subgroup whenever the cofactor is > 1) and their multiples by r (cofactor torsion)"""
    K = Fld(c['params'])
    a, b = c['a'], c['b']
    add = lambda P, Q: sw_add_aff(K, a, P, Q)
    rhs = lambda x: K.add(K.add(K.mul(K.mul(x, x), x), K.mul(a, x)), b)
    out = [('id', None)]
    if K.p < 100 and K.d == 1:
        for x in range(K.p):
            for y in range(K.p):
                if [y * y % K.p] == rhs([x]):
                    o = point_order(add, None, ([x], [y]), 4 * K.p)
                    out.append(('ord%d' % o, [x, y]))
        return out
    y = K.sqrt(rhs(K.zero))
    if y is not None:                                   # (0, +-sqrt b): x = 0
        out += [('x0', K.zero + y), ('x0', K.zero + K.neg(y))]
    n = 0
    while n < nrand:
        x = K.rand(rng)
        y = K.sqrt(rhs(x))
        if y is None:
            continue
        n += 1
        P = (x, y)
        out.append(('curve', x + y))
        if c.get('cofactor_gt1'):
            T = smul(add, None, r, P)                   # killed by the cofactor: small-order / outside the subgroup
            if T is not None:
                out.append(('tors', T[0] + T[1]))
    for _, P in out:                                    # the domain is the curve: never emit an off-curve point
        assert P is None or K.mul(P[K.d:], P[K.d:]) == rhs(P[:K.d]), P
    return out


def te_raw_points(rng, c, r, nrand, cof=8):
    """labelled points anywhere on a x^2 + y^2 = 1 + d x^2 y^2 over F_p: the whole curve for the toy curve; otherwise
    (0, -1) (order 2), (x, 0) (order 4) when a is a square, the points killed by the cofactor (multiples of r Q,
    searched until one has order 8 = the full cofactor of Jubjub) and random points of the whole curve"""
    K = Fld(c['params'])
    p, a, d = K.p, c['a'], c['d']
    zero = ([0], [1])
    add = lambda P, Q: te_add_aff(K, a, d, P, Q)
    out = [('id', None), ('ord1', [0, 1]), ('ord2', [0, p - 1])]
    if p < 100:
        out = [('id', None)]
        for x in range(p):
            for y in range(p):
                if (a[0] * x * x + y * y - 1 - d[0] * x * x * y * y) % p == 0:
                    out.append(('ord%d' % point_order(add, zero, ([x], [y]), 4 * p), [x, y]))
        return out
    x4 = sqrt_p(pow(a[0], -1, p), p)
    if x4 is not None:
        out += [('ord4', [x4, 0]), ('ord4', [p - x4, 0])]
    best, n = None, 0
    while n < nrand or ((best is None or best[0] < cof) and n < 64):
        y = rng.randrange(p)
        den = (a[0] - d[0] * y * y) % p
        if den == 0:
            continue
        x = sqrt_p((1 - y * y) * pow(den, -1, p), p)
        if x is None:
            continue
        n += 1
        Q = ([x], [y])
        if n <= nrand:
            out.append(('curve', [x, y]))
        T = smul(add, zero, r, Q)
        o = point_order(add, zero, T, 64)
        if o and (best is None or o > best[0]):
            best = (o, T)
    if best and best[0] > 2:
        o, T = best
        for k in range(1, o):                           # the whole cofactor-torsion subgroup generated by T
            Tk = smul(add, zero, k, T)
            ok = point_order(add, zero, Tk, 64)
            out.append(('ord%d' % ok, Tk[0] + Tk[1]))
    for _, P in out:                                    # the domain is the curve: never emit an off-curve point
        assert P is None or (a[0] * P[0] * P[0] + P[1] * P[1] - 1 - d[0] * P[0] * P[0] * P[1] * P[1]) % p == 0, P
    return out

# ---------------------------------------------------------------- curve points
P_EQUAL = [(2, 3), (2, 4), (2, 5), (4, 5), (9, 10), (11, 12), (13, 14), (0, 18), (21, 22), (0, 0), (6, 8), (6, 6),
           (8, 8)]
P_EQUAL_SMALLK = [(6, 7), (7, 8), (7, 7)]
P_IDENT = [15, 16, 17, 19, 20]
P_DIFF = [(0, 13), (6, 22), (2, 0), (11, 0), (13, 1), (0, 1)]


def nz_coords(rng, p, d):
    k = rng.randrange(4)
    if k == 0:
        return [1] + [0] * (d - 1)
    if k == 1:
        return [p - 1] + [0] * (d - 1)
    while True:
        v = [rng.randrange(p) if rng.randrange(3) else 0 for _ in range(d)]
        if any(v):
            return v


MUL_EXPRS = {6, 7, 8, 9, 10, 18, 21, 22}
P_AB = [(0, 1), (2, 11), (2, 12), (4, 11)]            # equal when A = B
P_ANEGB = [(2, 16), (4, 15), (1, 13), (3, 17)]        # equal when A = -B


def gen_curve(rng, op, c, r, n, tiny=False, fixed=None, raw=None, fixed_raw=None, nomul=False):
    """A = TA + s1 G, B = TB + s2 G.  TA, TB are raw affine points anywhere on the curve (`raw`: labelled pool,
    `fixed_raw`: list of ordered pairs to enumerate; None = identity); without them A, B are multiples of the
    subgroup generator.  `nomul`: no scalar-multiplication expressions (bls12_381 G1 overrides mul_projective with
    GLV, which computes k P only for P in the prime-order subgroup -- outside C19's domain)."""
    fld = c['params']
    p, d = fld[0], DEG[c['kind']]
    sw = op == 'sw_rel'
    H = [[c['cfg'], c['kind'], c['N'], c.get('var', 0)], fld, c['a'], c['b'] if sw else c['d'], c['G']]
    ok_e = lambda e: not (nomul and (set(e) & MUL_EXPRS))
    neg = lambda P: None if P is None else \
        (P[:d] + [(-v) % p for v in P[d:]] if sw else [(-v) % p for v in P[:d]] + P[d:])
    for _ in range(n):
        if r < 100:
            big = lambda: rng.randrange(0, r + 2)
        elif tiny:
            big = lambda: rng.randrange(0, 16)
        else:
            big = lambda: rng.choice([rng.randrange(1, r), rng.randrange(1, 1 << 64), rng.randrange(0, 40)])
        s1, s2 = big(), big()
        if fixed is not None:
            s1, s2 = fixed[_ % len(fixed)]
        la, TA, lb, TB = '', None, '', None
        if raw is not None:
            (la, TA), (lb, TB) = rng.choice(raw), rng.choice(raw)
            # half of the time the raw point itself (s = 0), otherwise torsion / outside point + subgroup point
            s1 = rng.choice([0, 0, 0, 1, s1, s1])
            s2 = rng.choice([0, 0, 0, 1, s2, s2])
        if fixed_raw is not None:
            (la, TA), (lb, TB) = fixed_raw[_ % len(fixed_raw)]
            s1 = s2 = 0
        k, l = big(), big()
        w = rng.choice([2, 3, 4, 5])
        lamL, lamR = nz_coords(rng, p, d), nz_coords(rng, p, d)
        nL, nR = int(rng.randrange(4) == 0), int(rng.randrange(4) == 0)
        raw_xy = [rng.randrange(p) if rng.randrange(4) else rng.choice([0, 1]) for _ in range(2 * d)]
        if not sw:
            raw_xy = nz_coords(rng, p, d)
        while True:
            t = rng.randrange(12)
            if not (nomul and t in (3, 4, 11)):
                break
        if t < 3:
            e = rng.choice([x for x in P_EQUAL if ok_e(x)]); cls = 'same_point'
        elif t == 3:
            e = rng.choice(P_EQUAL_SMALLK); k = rng.choice([0, 1, 2, 3, rng.randrange(40)]); cls = 'mul_paths_small'
        elif t == 4:
            kk = rng.choice([0, 1, 2, r - 1, r, r - 2]) if not tiny else rng.choice([0, 1, 2])
            k = kk; e = rng.choice([(6, 8), (6, 6), (9, 10), (21, 22), (0, 18)]); cls = 'mul_boundary_k'
            if kk >= r - 1 and e in ((21, 22), (0, 18)):
                e = (6, 8)                      # keep k + 1 <= r for the wNAF path
        elif t == 5:
            e = (rng.choice(P_IDENT), rng.choice(P_IDENT)); cls = 'id_id'
        elif t == 6:
            e = rng.choice([(0, rng.choice(P_IDENT)), (rng.choice(P_IDENT), 2)]); cls = 'pt_id'
        elif t == 7:
            e = (0, 13); cls = 'sign'
        elif t == 8:
            e = rng.choice([x for x in P_DIFF if ok_e(x)]); cls = 'distinct'
        elif t == 9:
            e = rng.choice(P_AB); cls = 'pair'
            if fixed is None and fixed_raw is None:
                s2, TB, lb = s1, TA, la; cls = 'A_eq_B'
            elif fixed is not None and fixed[_ % len(fixed)][0] == fixed[_ % len(fixed)][1]:
                cls = 'A_eq_B'
        elif t == 10 and not tiny:
            e = rng.choice(P_ANEGB); cls = 'pair'
            if fixed is None and fixed_raw is None:
                s2 = (r - s1) % r if s1 < r else 1
                TB, lb = neg(TA), la; cls = 'A_eq_negB'
            elif fixed is not None and (fixed[_ % len(fixed)][0] + fixed[_ % len(fixed)][1]) % r == 0:
                cls = 'A_eq_negB'
        else:
            l = (r - k) % r if not tiny else l; e = (9, 10); cls = 'k_plus_l_eq_r' if not tiny else 'same_point'
            if l == 0:
                l = 1
            if nomul:
                e = (2, 3)
        if 7 in e:
            k = k % 41
        if (e[0] in (9, 8) or e[1] in (9, 8)) and not tiny:
            k, l = k % r, l % r
        z2 = [0] * (2 * d)
        tag = ''
        if raw is not None or fixed_raw is not None:
            tag = '/raw:' + '+'.join(sorted({la, lb}))
        yield op, H + [[s1, s2, k, l, w], raw_xy, lamL, lamR, [e[0], e[1], nL, nR],
                       [int(TA is not None), int(TB is not None)], TA or z2, TB or z2], \
            '%s/%s%s%s' % (c['name'], cls, tag, '/rescaled' if lamL != lamR else '')


# ---------------------------------------------------------------- polynomials
# Expression codes: coq/C19/PolyExprs.v (dense-valued < 100, sparse-valued >= 100).  Operands P Q R (dense), f,
# SA SB (sparse, raw term lists through SparsePolynomial::from_coefficients_vec), domain [n, h, g].
# Pairs that denote the SAME polynomial for all operands:
PD_EQ = [(2, 3), (4, 5), (6, 7), (0, 8), (0, 9), (10, 11), (0, 12), (13, 14), (0, 0),             # (first 9: the old set)
         (6, 16), (6, 17), (16, 17), (2, 18), (19, 20), (4, 21), (5, 21), (22, 15), (23, 15), (22, 23), (24, 11),
         (10, 24), (26, 11), (29, 0), (31, 0), (35, 0), (41, 42), (44, 0), (45, 0), (9, 45), (46, 0), (33, 34),
         (32, 36), (37, 39), (38, 40), (25, 0), (30, 0), (43, 0)]
PS_EQ = [(105, 106), (105, 107), (108, 109), (108, 110), (109, 110), (111, 112), (114, 115), (116, 117), (117, 132),
         (118, 119), (120, 121), (122, 123), (124, 123), (122, 124), (125, 101), (126, 100), (127, 100), (128, 129),
         (130, 131), (133, 100), (134, 100), (135, 123), (136, 104), (100, 100)]
# the same polynomial when SA denotes P and SB denotes Q (the generator builds them so)
PD_EQ_CORR = [(32, 0), (36, 0), (37, 13), (38, 11), (39, 13), (40, 11), (34, 2), (33, 2)]
PS_EQ_CORR = [(100, 102), (101, 103), (108, 116), (108, 117), (105, 118), (105, 119), (114, 120), (114, 121),
              (111, 130), (111, 131), (122, 135), (107, 118), (109, 116)]
# generally different polynomials
PD_DIFF = [(0, 1), (2, 6), (0, 13), (4, 2), (0, 11), (6, 3), (17, 18), (19, 18), (22, 0), (25, 1), (37, 38), (16, 2),
           (41, 0), (27, 28), (21, 2)]
PS_DIFF = [(100, 101), (105, 108), (108, 106), (113, 100), (111, 105), (114, 105), (102, 103), (116, 118), (128, 100),
           (108, 110 + 3)]
# zero / equal only because of how the operands are correlated
PD_WHEN_Q_EQ_P = [(6, 11), (17, 11), (16, 11), (24, 17), (0, 1), (7, 11), (9, 1), (27, 27), (28, 11)]
PS_WHEN_Q_EQ_P = [(108, 123), (109, 123), (117, 123), (116, 123), (100, 101), (110, 123), (132, 123), (125, 100)]
PD_WHEN_Q_EQ_NEGP = [(2, 11), (18, 11), (3, 11), (41, 1), (42, 1), (9, 0), (45, 0)]
PS_WHEN_Q_EQ_NEGP = [(105, 123), (107, 123), (119, 123), (118, 123), (113, 101), (106, 123)]
P_FFT = {4, 5, 12, 25, 26}          # DensePolynomial `*` builds a domain of size >= len p + len q - 1
SPARSE_ONLY = {100, 101, 105, 106, 107, 108, 109, 110, 111, 112, 113, 114, 115, 122, 123, 124, 125, 126, 127, 128,
               129, 133, 134, 32, 33, 34, 36}      # codes that read only SA, SB, f

# Branches of the sparse / dense operators and the class that reaches them:
#   sparse Add merge: Less / Greater / Equal with non-zero sum / Equal with ZERO sum (term dropped) ... 'shared' (equal
#        and opposite coefficients on interior and leading monomials), 'equal', 'opposite', 'hi' (truly sparse, degrees
#        to 200); append_coeffs tail of either side: different lengths; is_zero shortcuts: 'zero_p', 'zero_q', 'zero_pq'
#   sparse `-=` / `+= (f, q)` / Neg / `* f` (f = 0, 1, -1): every scenario, f classes
#   sparse mul: BTreeMap accumulation with cancelling products (x+1)(x-1)-type: 'opposite', 'shared', F_13 stream
#   SparsePolynomial::from_coefficients_vec: pops trailing zero-coefficient terms, sorts: 'unsorted', 'zterm' flags
#   dense add/sub/+=/-=/+=(f,q): degree comparison branches, truncate_leading_zeros: 'lead_cancel' (k leading
#        coefficients cancel), 'low_r' ((p + r) - p with deg r < deg p), 'equal', 'opposite', trailing zeros in inputs
#   divide_with_q_and_r: zero dividend / deg < deg / loop: 'pair' with (25..29, 43), dense and sparse divisor
#   evaluate_over_domain (len <= n and folding len > n), interpolate: code 30, observable 7 of every case


def _canon(v, p):
    v = [x % p for x in v]
    while v and v[-1] == 0:
        v.pop()
    return v


def gen_poly(rng, n, fname='bls12_381_fr'):
    f = FIELDS[fname]
    p, N = f['params'][0], f['N']
    H = [head(f), f['params']]
    toy = p < 100
    gen2, twoad = (2, 2) if toy else (7, 32)           # multiplicative generator, 2-adicity (checked by the harness:
    maxlen = 5 if toy else 9                           # the domain's group_gen must equal g)

    def coef():
        return fp_operand(rng, p, N)[0] % p

    def nzcoef():
        while True:
            c = coef()
            if c:
                return c

    def poly(maxlen):
        ln = rng.choice([0, 1, 2, 3, rng.randrange(maxlen + 1)])
        v = [coef() if rng.randrange(4) else 0 for _ in range(ln)]
        if v and rng.randrange(3):
            v[-1] = nzcoef()
        return v

    def pad(v):
        if rng.randrange(3) == 0:
            return v + [0] * rng.randrange(1, 4)     # non-canonical input: trailing zeros
        return v

    def raw_terms(terms):
        """raw argument of SparsePolynomial::from_coefficients_vec for the polynomial {deg: coeff}: the non-zero
        terms in any order, with (sometimes) zero-coefficient terms of other degrees anywhere in the list (the
        constructor drops them: F28, fixed in /repo).  Duplicate degrees have no single meaning (evaluate sums them,
        the dense conversion keeps the last; the constructor documents that it does not combine them): not generated."""
        t = [(d, c) for d, c in terms if c % p]
        flags = ''
        if len(t) > 1 and rng.randrange(2):
            rng.shuffle(t); flags += '/unsorted'
        if rng.randrange(3) == 0:
            used = {d for d, _ in t}
            for _ in range(rng.randrange(1, 3)):
                d = rng.choice([0, 1, 2, 7, 40, 300])
                if d not in used:
                    # zero-coefficient terms ANYWHERE in the raw list (fixed defect F28: they used to be dropped only at
                    # the end of the list; one that sorted last panicked): front, middle or end
                    used.add(d); t.insert(rng.randrange(len(t) + 1), (d, 0)); flags += '/zterm'
        return [x for d, c in t for x in (d, c)], flags

    def of_dense(v):
        return [(i, c) for i, c in enumerate(v)]

    for _ in range(n):
        sc = rng.randrange(16)
        corr = True                                   # SA denotes P, SB denotes Q
        extraD, extraS = [], []
        a, b, r = poly(maxlen), poly(maxlen), poly(maxlen)
        if sc == 0 and a:
            b = list(a); cls = 'equal'; extraD, extraS = PD_WHEN_Q_EQ_P, PS_WHEN_Q_EQ_P
        elif sc == 1 and a:
            b = [(-x) % p for x in a]; cls = 'opposite'; extraD, extraS = PD_WHEN_Q_EQ_NEGP, PS_WHEN_Q_EQ_NEGP
        elif sc in (2, 3) and a:
            # shared monomials with equal / opposite coefficients, interior and leading
            b = [rng.choice([x, (-x) % p, x, (-x) % p, coef(), 0]) for x in a]
            b = b[:rng.randrange(1, len(b) + 1)] if rng.randrange(3) == 0 else b
            cls = 'shared'
        elif sc in (4, 5) and a:
            # the k leading coefficients cancel in p - q (equal) or p + q (opposite)
            a = _canon(a, p) or [nzcoef()]
            k = rng.randrange(1, len(a) + 1)
            sg = rng.choice([1, -1])
            b = [coef() for _ in range(len(a) - k)] + [(sg * x) % p for x in a[len(a) - k:]]
            cls = 'lead_cancel%s' % ('_all' if k == len(a) else '')
        elif sc == 6:
            # (p + r) - p = r with deg r < deg p: the leading terms of the sum cancel again
            a = _canon(a, p) or [nzcoef(), nzcoef()]
            r = poly(max(0, len(a) - 1))[:max(0, len(a) - 1)]
            cls = 'low_r'
        elif sc == 7:
            z = rng.randrange(3)
            if z == 0:
                a = []; cls = 'zero_p'
            elif z == 1:
                b = []; cls = 'zero_q'
            else:
                a, b = [], []; cls = 'zero_pq'
            if rng.randrange(2):
                r = []
        elif sc == 8:
            # single terms on the same / different monomial
            k = rng.randrange(0, maxlen)
            a = [0] * k + [nzcoef()]
            b = rng.choice([list(a), [(-x) % p for x in a], [0] * k + [nzcoef()], [0] * rng.randrange(0, maxlen) + [nzcoef()]])
            r = [0] * rng.randrange(0, k + 1) + [nzcoef()]
            cls = 'single_term'
        elif sc == 9 and a:
            b = list(a); i = rng.randrange(len(a)); b[i] = (b[i] + 1) % p; cls = 'nb_coeff'
            extraD, extraS = [(0, 1)] * 3, [(100, 101), (102, 103), (100, 103)]
        elif sc == 10:
            b = a + [0, 0]; cls = 'trailing_zeros'; extraD, extraS = PD_WHEN_Q_EQ_P, PS_WHEN_Q_EQ_P
        else:
            cls = 'pair'
        ta, tb = of_dense(a), of_dense(b)
        if sc >= 13:
            # truly sparse SA, SB (independent of P, Q): few terms, degrees to 200, shared degrees with equal /
            # opposite coefficients incl. the leading one
            corr = False
            pool = [0, 1, 2, 3, 5, 8, 13, 31, 32, 33, 63, 64, 65, 100, 127, 128, 200] if not toy else [0, 1, 2, 3, 5, 8, 13, 31]
            ta = [(d, nzcoef()) for d in sorted(rng.sample(pool, rng.randrange(0, 6)))]
            k = rng.randrange(6)
            if k == 0:
                tb = list(ta); cls = 'hi_equal'; extraS = PS_WHEN_Q_EQ_P
            elif k == 1:
                tb = [(d, (-c) % p) for d, c in ta]; cls = 'hi_opposite'; extraS = PS_WHEN_Q_EQ_NEGP
            elif k == 2 and ta:
                tb = list(ta); i = rng.randrange(len(ta)); d, c = tb[i]
                tb[i] = rng.choice([(d, (c + 1) % p), (d + 300, c)])
                if rng.randrange(3) == 0:
                    del tb[i]
                cls = 'hi_neighbour'; extraS = [(100, 101)] * 3
            else:
                tb = [(d, rng.choice([c, (-c) % p, nzcoef()])) for d, c in ta if rng.randrange(3)]
                tb += [(d, nzcoef()) for d in rng.sample(pool, rng.randrange(0, 3)) if d not in dict(ta)]
                cls = 'hi_shared'
        sa, fa = raw_terms(ta)
        sb, fb = raw_terms(tb)
        fs = rng.choice([0, 1, p - 1, 2 % p, coef(), coef()])
        # the expression pair
        sparse_side = rng.randrange(2) == 0 or not corr
        t = rng.randrange(10)
        if extraD and t < 4:
            pool_e = extraS if sparse_side else extraD; kind = 'corr'
        elif t < 7:
            pool_e = PS_EQ if sparse_side else PD_EQ; kind = 'same'
        elif t < 8 and corr:
            pool_e = PS_EQ_CORR if sparse_side else PD_EQ_CORR; kind = 'same'
        else:
            pool_e = PS_DIFF if sparse_side else PD_DIFF; kind = 'diff'
        ca, cb = _canon(a, p), _canon(b, p)
        need = len(ca) + len(cb)
        while True:
            e = rng.choice(pool_e)
            if not corr and not (set(e) <= SPARSE_ONLY):
                pool_e = [x for x in PS_EQ + PS_DIFF + [(33, 34), (32, 36)] if set(x) <= SPARSE_ONLY]
                kind = 'mixed'
                continue
            if set(e) & (P_FFT - {12}) and ca and cb and need - 1 > (1 << twoad):
                continue                              # toy field not smooth enough for this product
            if 12 in e and len(ca) > (1 << twoad):
                continue                              # p * [1] needs a domain of size len p
            if e == (25, 0) and not cb:
                e = (26, 11)                          # (p*q)/q is only p for q != 0
            break
        # domain: large enough for the round trip (code 30) most of the time; smaller domains fold mod X^n - h^n
        k = max(1, need).bit_length()
        if not (30 in e) and rng.randrange(4) == 0:
            k = rng.randrange(0, k + 1)
        k = min(k + rng.randrange(2), twoad, 5)
        if 30 in e and (1 << k) < len(ca):
            e = (31, 0)
        nn = 1 << k
        g = pow(gen2, (p - 1) // nn, p)
        hh = rng.choice([1, 1, 1, p - 1, gen2, rng.randrange(1, p)])
        yield 'poly_rel', H + [pad(a), pad(b), list(e), pad(r), [fs], sa, sb, [nn, hh, g]], \
            'poly%s/%s/%s/%s%s' % ('13' if toy else '', cls, 'sparse' if e[0] >= 100 else 'dense', kind,
                                   ''.join(sorted(set((fa + fb).split('/')) - {''})) and
                                   '/raw:' + '+'.join(sorted(set((fa + fb).split('/')) - {''}))
                                   if e[0] >= 100 or not set(e).isdisjoint(range(32, 44)) else '')


# ---------------------------------------------------------------- multivariate sparse polynomials
# Expression codes: coq/C19/MvModel.v.  Operands P Q R = SparsePolynomial::from_coefficients_vec(num_vars, raw terms)
# with raw terms through SparseTerm::new; f a scalar.  Pairs that denote the SAME polynomial for all operands
# (all three operands have the same num_vars, see DEFECT-2 below):
MV_EQ = [(3, 4), (3, 5), (4, 5), (6, 7), (6, 8), (6, 9), (7, 9), (26, 12), (26, 13), (26, 23), (12, 13), (0, 14), (0, 16),
         (0, 17), (0, 18), (0, 20), (0, 21), (0, 22), (28, 3), (29, 6), (30, 0), (31, 26), (27, 26), (0, 0), (18, 30),
         (20, 21), (28, 5), (29, 7)]
MV_EQ_NVMIX = [(3, 4), (3, 5), (4, 5), (6, 7), (6, 8), (6, 9), (28, 3), (29, 6),
               # the two sides carry DIFFERENT num_vars (fixed defect F29: Hash fed num_vars although == ignores it)
               (0, 14), (0, 22), (0, 18), (0, 30)]
# zero()-based values (num_vars 0) against the same polynomial with the operand's num_vars (F29 as well)
MV_EQ_ZERO_NV = [(11, 12), (11, 13), (11, 23), (11, 26), (24, 26), (11, 31), (20, 0), (21, 0)]
MV_BY_F = {'f0': [(10, 0), (10, 18), (19, 26), (10, 30), (10, 20)], 'f1': [(10, 3), (10, 28), (19, 1), (10, 4)],
           'fm1': [(10, 6), (10, 29), (10, 9)], 'f2': [(10, 25)], 'frand': [(10, 2), (2, 10)]}
MV_DIFF = [(0, 1), (3, 6), (0, 15), (0, 3), (15, 16), (3, 25), (12, 0), (26, 0), (10, 0), (19, 0), (1, 15), (14, 1)]
MV_WHEN_Q_EQ_P = [(6, 26), (7, 26), (8, 26), (9, 26), (0, 1), (14, 1), (29, 26), (22, 1), (12, 6)]
MV_WHEN_Q_EQ_NEGP = [(3, 26), (4, 26), (5, 26), (28, 26), (15, 1), (25, 1), (13, 3)]
# Branches of the multivariate operators and the class that reaches them:
#   Add merge loop: Less / Greater / Equal with non-zero sum / Equal with ZERO sum, either tail ... 'shared' (equal and
#        opposite coefficients on common monomials), 'equal', 'opposite', 'disjoint' (no common monomial), 'zero_p/q'
#   the final `retain(!is_zero)` of Add: the ONLY thing that removes (a) cancelled common terms, (b) the zero terms
#        `+= (f, &q)` creates for f = 0 on monomials of q absent from p ('disjoint', 'shared', 'zero_p' with f0) ...
#        codes 10 (f0), 18, 19, 24, 27, 30, 31 against p / the empty polynomial: ==, hash, degree, stored terms
#   from_coefficients_vec: sort, merge duplicates (incl. duplicates summing to zero), drop zeros ... raw flags 'dup',
#        'dupcancel', 'zcoef', 'unsorted';  SparseTerm::new: drop zero powers, sort, combine ... 'zpow', 'split', 'unordered'
#   Neg / Sub / -= / += : every scenario;  is_zero (empty || all zero), degree (max over stored terms, 0 if empty)
MV_MONOS = [(), ((0, 1),), ((1, 1),), ((0, 2),), ((0, 1), (1, 1)), ((2, 1),), ((1, 3),), ((0, 1), (2, 2)), ((1, 2), (3, 1)),
            ((0, 1), (1, 1), (2, 1)), ((3, 4),), ((0, 5),), ((1, 2),), ((0, 3),), ((2, 2), (3, 2))]


def gen_mvpoly(rng, n, fname='bls12_381_fr'):
    f = FIELDS[fname]
    p, N = f['params'][0], f['N']
    H = [head(f), f['params']]
    toy = p < 100

    def coef():
        return fp_operand(rng, p, N)[0] % p

    def nzcoef():
        while True:
            c = coef()
            if c:
                return c

    def monos(nv):
        return [m for m in MV_MONOS if all(v < nv for v, _ in m)]

    def rand_poly(nv, kmax=5):
        ms = monos(nv)
        return {m: nzcoef() for m in rng.sample(ms, rng.randrange(0, min(kmax, len(ms)) + 1))}

    def raw_term(m, nv, flags):
        """a raw argument of SparseTerm::new denoting the monomial m: variables in any order, a power split over
        repeated variables, zero powers"""
        t = []
        for v, e in m:
            if e >= 2 and rng.randrange(3) == 0:
                e1 = rng.randrange(1, e); t += [(v, e1), (v, e - e1)]; flags.add('split')
            else:
                t.append((v, e))
        if rng.randrange(4) == 0:
            t.insert(rng.randrange(len(t) + 1), (rng.randrange(nv), 0)); flags.add('zpow')
        if len(t) > 1 and rng.randrange(2):
            t2 = list(t); rng.shuffle(t2)
            if t2 != t:
                flags.add('unordered')
            t = t2
        return t

    def raw(nv, poly, flags, extra=()):
        """raw argument of from_coefficients_vec denoting `poly` (+ the `extra` (c, m) terms, summed in): any order,
        coefficients split over duplicate monomials, duplicates that cancel, zero coefficients"""
        ents = []
        for m, c in poly.items():
            if rng.randrange(4) == 0:
                c1 = rng.randrange(p); ents += [(c1, m), ((c - c1) % p, m)]; flags.add('dup')
            else:
                ents.append((c, m))
        ents += list(extra)
        if rng.randrange(4) == 0:
            m = rng.choice(monos(nv)); ents.append((0, m)); flags.add('zcoef')
        if rng.randrange(5) == 0:
            m = rng.choice(monos(nv)); c = nzcoef(); ents += [(c, m), ((-c) % p, m)]; flags.add('dupcancel')
        if len(ents) > 1 and rng.randrange(3):
            rng.shuffle(ents); flags.add('unsorted')
        ts = [raw_term(m, nv, flags) for _, m in ents]
        return [[nv], [c for c, _ in ents], [len(t) for t in ts], [v for t in ts for v, _ in t],
                [e for t in ts for _, e in t]]

    for _ in range(n):
        nv = rng.choice([1, 2, 3, 4, 4])
        nvq = nvr = nv
        sc = rng.randrange(12)
        extra = []
        P = rand_poly(nv)
        Q = rand_poly(nv)
        R = rand_poly(nv, 3)
        if sc == 0 and P:
            Q = dict(P); cls = 'equal'; extra = MV_WHEN_Q_EQ_P
        elif sc == 1 and P:
            Q = {m: (-c) % p for m, c in P.items()}; cls = 'opposite'; extra = MV_WHEN_Q_EQ_NEGP
        elif sc in (2, 3) and P:
            Q = {m: rng.choice([c, (-c) % p, nzcoef()]) for m, c in P.items() if rng.randrange(4)}
            for m in rng.sample(monos(nv), rng.randrange(0, 3)):
                Q.setdefault(m, nzcoef())
            cls = 'shared'
        elif sc in (4, 5):
            ms = monos(nv); rng.shuffle(ms); k = rng.randrange(0, len(ms) + 1); j = rng.randrange(0, k + 1)
            P = {m: nzcoef() for m in ms[:j][:4]}
            Q = {m: nzcoef() for m in ms[j:k][:4]}
            cls = 'disjoint'
        elif sc == 6:
            z = rng.randrange(3)
            if z == 0:
                P = {}; cls = 'zero_p'
            elif z == 1:
                Q = {}; cls = 'zero_q'
            else:
                P, Q = {}, {}; cls = 'zero_pq'
        elif sc == 7:
            m = rng.choice(monos(nv)); c = nzcoef()
            P = {m: c}
            Q = rng.choice([{m: c}, {m: (-c) % p}, {m: nzcoef()}, {rng.choice(monos(nv)): nzcoef()}])
            cls = 'single_term'
        elif sc == 8 and P:
            Q = dict(P); m = rng.choice(sorted(P)); Q[m] = (Q[m] + 1) % p
            if Q[m] == 0:
                del Q[m]
            cls = 'nb_coeff'; extra = [(0, 1)] * 3
        elif sc == 9 and nv < 4:
            # operands with different num_vars: only pairs whose two sides carry max(num_vars) (DEFECT-2)
            nvq = rng.randrange(nv + 1, 5); Q = rand_poly(nvq); cls = 'nvmix'
        else:
            cls = 'pair'
        fk = rng.choice(['f0', 'f0', 'f1', 'fm1', 'f2', 'frand', 'frand'])
        fs = {'f0': 0, 'f1': 1 % p, 'fm1': p - 1, 'f2': 2 % p, 'frand': coef()}[fk]
        flags = set()
        rextra = []
        t = rng.randrange(10)
        if cls == 'nvmix':
            e = rng.choice(MV_EQ_NVMIX); kind = 'same'
        elif extra and t < 4:
            e = rng.choice(extra); kind = 'corr'
        elif t < 5:
            e = rng.choice(MV_EQ + MV_EQ_ZERO_NV); kind = 'same'
        elif t < 8:
            e = rng.choice(MV_BY_F[fk]); kind = 'scaled_' + fk
            if fk == 'frand':
                R = dict(P); rextra = [(c * fs % p, m) for m, c in Q.items()]      # R denotes P + f Q
        else:
            e = rng.choice(MV_DIFF); kind = 'diff'
        # F29 (fixed in /repo): the derived Hash fed num_vars although the derived PartialEq ignores it, so equal polynomials
        # with different num_vars (zero() has 0; a sum has the max) hashed differently.  Such pairs ARE generated
        # (MV_EQ_ZERO_NV, the last entries of MV_EQ_NVMIX) so that a regression is reported.
        pt = [rng.choice([0, 1, p - 1, rng.randrange(p), rng.randrange(p)]) for _ in range(max(nv, nvq, nvr))]
        yield 'mvpoly_rel', H + [list(e), [fs], pt] + raw(nv, P, flags) + raw(nvq, Q, flags) + raw(nvr, R, flags, rextra), \
            'mvpoly%s/%s/%s%s' % ('13' if toy else '', cls, kind, flags and '/raw:' + '+'.join(sorted(flags)) or '')


# ---------------------------------------------------------------- curve points obtained by deserialization
def le_bytes(v, n):
    return [(v >> (8 * i)) & 255 for i in range(n)]


def enc_fe(p, coords, flagbits, mask):
    """Field::serialize_with_flags: every base-prime-field coordinate little-endian; the LAST one is sized for the
    flag bits, which go into the top bits of the last byte"""
    out = []
    for c in coords[:-1]:
        out += le_bytes(c, (p.bit_length() + 7) // 8)
    b = le_bytes(coords[-1], (p.bit_length() + flagbits + 7) // 8)
    b[-1] |= mask
    return out + b


def fe_le(K, a):
    """a <= -a in the order of the field (extensions: last coordinate first)"""
    key = lambda v: tuple(reversed(v))
    return key(a) <= key(K.neg(a))


# Branches of deserialize_with_mode and the class that reaches them:
#   SW compressed: infinity flag (x ignored) / get_ys_from_x + sign selection ...... 'inf_*', 'canon', 'other_sign'
#   SW uncompressed: x, (y, flags); flags.is_infinity() -> identity, else new_unchecked(x, y) (the sign bit is NOT
#        looked at) ................................................................. 'inf_nonblank*', 'other_sign'
#   Validate::Yes -> check() (on curve, subgroup) / Validate::No .................... both modes on every class
#   y = 0 (both roots equal, either sign flag decodes to the same point) ............ 'y0' points of the toy curves
#   TE compressed: x recovered from y, sign flag; x = 0 (both flags give the same point: (0, 1) and (0, -1))
#   flag byte with BOTH bits set (rejected by SWFlags::from_u8) ...................... 'inf_neg' (Err on both sides)
def gen_decoded(rng, c, r, n, model):
    p, d = c['params'][0], DEG[c['kind']]
    K = Fld(c['params'])
    sw = model == 0
    H = [[c['cfg'], c['kind'], c['N'], c.get('var', 0), model], c['params'], c['a'], c['b'] if sw else c['d'], [r]]
    G = (c['G'][:d], c['G'][d:])
    if sw:
        add = lambda P, Q: sw_add_aff(K, c['a'], P, Q); zero = None
        pool = [(l, None if P is None else (P[:d], P[d:])) for l, P in sw_raw_points(rng, c, r, 2)]
    else:
        add = lambda P, Q: te_add_aff(K, c['a'], c['d'], P, Q); zero = ([0], [1])
        pool = [(l, zero if P is None else (P[:d], P[d:])) for l, P in te_raw_points(rng, c, r, 2)]
    pool = [(('raw:' + l) if l != 'id' else 'id', P) for l, P in pool]
    for s in [1, 2, 3, r - 1, rng.randrange(1, r), rng.randrange(1, r)]:
        pool.append(('sub', smul(add, zero, s % r, G)))
    junk = lambda: [rng.choice([0, 1, rng.randrange(1 << (8 * ((p.bit_length() - 1) // 8)))]) for _ in range(d)]

    def enc_sw(P, comp, how):
        if P is None:
            x, y, mask = [0] * d, [0] * d, 64
        else:
            x, y = P
            mask = 0 if fe_le(K, y) else 128
        if how == 'other_sign' and P is not None:
            mask ^= 128
        elif how == 'inf':                       # infinity flag over whatever the coordinate bytes are
            mask = 64
        elif how == 'inf_neg':
            mask = 192
        if comp:
            return enc_fe(p, x, 2, mask)
        return enc_fe(p, x, 0, 0) + enc_fe(p, y, 2, mask)

    def enc_te(P, comp, how):
        x, y = P
        mask = 0 if fe_le(K, x) else 128
        if how == 'other_sign':
            mask ^= 128
        if comp:
            return enc_fe(p, y, 1, mask)
        return enc_fe(p, x, 0, 0) + enc_fe(p, y, 0, 0)

    enc = enc_sw if sw else enc_te
    for _ in range(n):
        (l1, P1), (l2, P2) = rng.choice(pool), rng.choice(pool)
        c1, v1, c2, v2 = (rng.randrange(2) for _ in range(4))
        k = rng.randrange(10 if sw else 6)
        if k == 0:
            P2, l2 = P1, l1; c1, c2 = 1, 0; h1 = h2 = 'canon'; cls = 'canon_c_vs_u'
        elif k in (1, 2):
            P2, l2 = P1, l1; h1, h2 = 'canon', 'other_sign'; c2 = rng.choice([c2, 1]); cls = 'other_sign'
        elif k == 3:
            h1 = h2 = 'canon'; cls = 'two_points'
        elif k == 4:
            id_ = None if sw else zero
            P1, l1 = id_, 'id'; h1, h2 = 'canon', rng.choice(['canon', 'other_sign']); cls = 'id_vs_point'
        elif k == 5:
            P2, l2 = P1, l1; h1 = h2 = 'canon'; c2 = c1; v1, v2 = 0, 1; cls = 'validate_modes'
        elif k in (6, 7):
            # the identity: canonical (blank) encoding against the infinity flag over NON-blank coordinate bytes
            # (the coordinates of a point, or junk below 2^(8 (len - 1)) <= p)
            Pj = P2 if (P2 is not None and rng.randrange(2)) else (junk(), junk())
            P1, l1, P2, l2 = None, 'id', Pj, 'nonblank'; h1, h2 = 'canon', 'inf'; cls = 'inf_blank_vs_nonblank'
            if rng.randrange(3) == 0:
                P1, l1 = (junk(), junk()), 'nonblank'; h1 = 'inf'; cls = 'inf_nonblank_both'
        elif k == 8:
            # a point against the infinity flag over ITS coordinates
            if P1 is None:
                P1 = (junk(), junk())
            P2, l2 = P1, 'nonblank'; h1, h2 = 'canon', 'inf'; c2 = rng.choice([c2, 0]); cls = 'point_vs_inf_same_bytes'
        else:
            h1, h2 = 'canon', 'inf_neg'; cls = 'inf_neg'
        yield 'pt_decoded_rel', H + [[c1, v1, c2, v2], enc(P1, c1, h1), enc(P2, c2, h2)], \
            'dec/%s/%s/%s' % (c['name'], cls, '+'.join(sorted({l1, l2})))


def gen_gt(rng, n):
    f = FIELDS['bls12_381_fq12']
    p, N = f['params'][0], f['N']
    H = [head(f), f['params']]
    for _ in range(n):
        x, cx = ext_operand(rng, p, N, 12)
        y, cy = ext_operand(rng, p, N, 12)
        r = rng.randrange(6)
        if r == 0:
            e = (40, 41); cls = 'same_value'
        elif r == 1:
            e = rng.choice([(24, 40), (40, 25), (2, 3), (0, 21)]); cls = 'same_value'
        elif r == 2:
            e = rng.choice([(43, 20), (0, 43), (43, 19), (21, 43)]); cls = 'identity'
        elif r == 3:
            y = list(x); i = rng.randrange(12); y[i] = (y[i] + 1) % p; e = (0, 1); cls = 'neighbour'
        else:
            e = (0, 1); cls = 'pair'
        yield 'gt_rel', H + [x, y, [0] * 12, list(e)], 'gt/%s/%s' % (cls, cx)


def gen_gt_pair(rng, n):
    f = FIELDS['bls12_381_fq12']
    g = PARAMS['gt']['bls12_381']['g']
    r = FIELDS['bls12_381_fr']['params'][0]
    H = [head(f), f['params'], g]
    sc = lambda: rng.choice([0, 1, 2, r - 1, rng.randrange(r), rng.randrange(1 << 64)])
    for _ in range(n):
        s1, s2, t1, t2 = sc(), sc(), sc(), sc()
        mode = rng.randrange(5)
        same = rng.randrange(3) > 0
        cls = 'distinct'
        if same:
            cls = 'same_value'
            e = s1 * s2 % r
            if mode in (0, 1):
                t1, t2 = rng.choice([(s2, s1), (e, 1), (1, e), (s1, s2)])
            elif mode in (2, 3):
                t2 = (e - t1) % r
            else:
                t1, t2 = (r - s1) % r, s2
        if s1 * s2 % r == 0:
            cls += '/identity'
        yield 'gt_pair', H + [[s1, s2, t1, t2, mode, r]], 'gt_pair/mode%d/%s' % (mode, cls)


def gen(rng, tier):
    scale = 1 if tier == 'quick' else 25
    # configuration constants
    for name, f in sorted(FIELDS.items()):
        yield 'fld_params', [head(f), f['params']], 'params'
    for name, c in sorted(SW.items()):
        yield 'sw_params', [[c['cfg'], c['kind'], c['N'], c.get('var', 0)], c['params'], c['a'], c['b'], c['G']], 'params'
    for name, c in sorted(TE.items()):
        yield 'te_params', [[c['cfg'], c['kind'], c['N'], c.get('var', 0)], c['params'], c['a'], c['d'], c['G']], 'params'
    # toy fields: every ordered pair
    yield from gen_field_exhaustive(rng, 'f13', F_EQUAL + F_DIFF)
    if tier == 'thorough':
        yield from gen_field_exhaustive(rng, 'f13_2', [(0, 1), (0, 1), (2, 3), (24, 25), (0, 16)])
    per = {'bls12_381_fq': 400, 'bls12_381_fr': 300, 'secp256k1_fq': 300, 'secp256k1_fr': 200, 'mnt6_753_fq': 150,
           'f13': 100, 'm61': 200, 'goldilocks': 300, 'jubjub_fq': 100, 'bls12_381_fq2': 400, 'f13_2': 400,
           'mnt6_753_fq3': 200, 'bls12_381_fq6': 250, 'bls12_381_fq12': 250}
    for name in sorted(FIELDS):
        yield from gen_field(rng, name, per[name] * scale)
        yield from gen_sort(rng, name, max(10, per[name] // 10) * scale)
    yield from gen_big(rng, 1500 * scale)
    q = tier == 'quick'
    for name, c in sorted(SW.items()):
        c = dict(c, name=name, cofactor_gt1=name in ('bls12_381_g1', 'bls12_381_g2'))
        if name.startswith('toy_sw13'):
            rr = {'toy_sw13': 19, 'toy_sw13b': 5, 'toy_sw13c': 3}[name]
            pts = sw_raw_points(rng, c, rr, 0)
            if name == 'toy_sw13':
                # every ordered pair (A, B) of the 19 points (s = 0 is the identity), several expression pairs each
                pairs = [(i, j) for i in range(19) for j in range(19)]
                yield from gen_curve(rng, 'sw_rel', c, 19, len(pairs) * (2 if q else 12), fixed=pairs)
                continue
            # cofactor 4, full 2-torsion (y = 0): every ordered pair of points of the WHOLE curve (identity
            # included) by raw coordinates, then torsion point + subgroup point
            pairs = [(P, Q) for P in pts for Q in pts]
            yield from gen_curve(rng, 'sw_rel', c, rr, len(pairs) * (2 if q else 12), fixed_raw=pairs)
            yield from gen_curve(rng, 'sw_rel', c, rr, 150 * scale, raw=pts)
            continue
        r = FIELDS[c['fr']]['params'][0]
        yield from gen_curve(rng, 'sw_rel', c, r, {'bls12_381_g1': 160, 'bls12_381_g2': 100, 'secp256k1': 160}[name] * scale)
        yield from gen_curve(rng, 'sw_rel', c, r, 12 * scale, tiny=True)
        # points by raw coordinates: x = 0, random points of E(F_q) (outside the subgroup on G1 / G2), r * them
        pts = sw_raw_points(rng, c, r, 3 if q else 12)
        yield from gen_curve(rng, 'sw_rel', c, r, {'bls12_381_g1': 90, 'bls12_381_g2': 50, 'secp256k1': 50}[name] * scale,
                             raw=pts, nomul=(name == 'bls12_381_g1'))
    for name, c in sorted(TE.items()):
        c = dict(c, name=name)
        if name == 'toy_te13':
            pairs = [(i, j) for i in range(5) for j in range(5)]
            yield from gen_curve(rng, 'te_rel', c, 5, len(pairs) * (12 if q else 100), fixed=pairs)
            # the WHOLE curve (20 points, cofactor 4: orders 1, 2, 4, 5, 10, 20), every ordered pair, raw coordinates
            pts = [x for x in te_raw_points(rng, c, 5, 0) if x[1] is not None]
            pairs = [(P, Q) for P in pts for Q in pts]
            yield from gen_curve(rng, 'te_rel', c, 5, len(pairs) * (2 if q else 12), fixed_raw=pairs)
            yield from gen_curve(rng, 'te_rel', c, 5, 150 * scale, raw=pts)
            continue
        yield from gen_curve(rng, 'te_rel', c, JUBJUB_R, 200 * scale)
        yield from gen_curve(rng, 'te_rel', c, JUBJUB_R, 12 * scale, tiny=True)
        # (0, -1), (x, 0), the whole 8-torsion, random points of the whole curve; alone and + s G
        pts = te_raw_points(rng, c, JUBJUB_R, 4 if q else 16)
        yield from gen_curve(rng, 'te_rel', c, JUBJUB_R, 220 * scale, raw=pts)
        yield from gen_curve(rng, 'te_rel', c, JUBJUB_R, 20 * scale, tiny=True, raw=pts)
    yield 'gt_params', [head(FIELDS['bls12_381_fq12']), FIELDS['bls12_381_fq12']['params'], PARAMS['gt']['bls12_381']['g']], 'params'
    yield from gen_gt(rng, 150 * scale)
    yield from gen_gt_pair(rng, 48 * (1 if tier == 'quick' else 8))
    yield from gen_poly(rng, 1800 * scale)
    yield from gen_poly(rng, 1200 * scale, 'f13')
    yield from gen_mvpoly(rng, 1200 * scale)
    yield from gen_mvpoly(rng, 800 * scale, 'f13')
    toy_r = {'toy_sw13': 19, 'toy_sw13b': 5, 'toy_sw13c': 3, 'toy_te13': 5}
    for name, c in sorted(SW.items()):
        c = dict(c, name=name, cofactor_gt1=name in ('bls12_381_g1', 'bls12_381_g2'))
        r = toy_r[name] if name in toy_r else FIELDS[c['fr']]['params'][0]
        yield from gen_decoded(rng, c, r, (150 if name in toy_r else 40) * scale, 0)
    for name, c in sorted(TE.items()):
        c = dict(c, name=name)
        yield from gen_decoded(rng, c, toy_r.get(name, JUBJUB_R), (150 if name in toy_r else 40) * scale, 1)


def nontrivial(case, out):
    return case['op'] not in ('fld_params', 'sw_params', 'te_params', 'gt_params') and any(any(x != 0 for x in a) for a in case['args'][2:])


def xcheck_ok(case):
    """cases cheap enough for in-kernel vm_compute on stdlib Z"""
    op = case['op']
    if op in ('sw_rel', 'te_rel'):
        # scalar multiplications + inversions on 255..381-bit Z take minutes in the kernel: toy curves only
        return case['args'][1][0] < 1000
    if op == 'gt_pair':
        return False            # 255-bit exponentiation in Fq12
    if op == 'pt_decoded_rel':
        return case['args'][1][0] < 1000     # square roots / subgroup checks on 255..381-bit Z: toy curves only
    if op == 'poly_rel' and case['args'][1][0] > 1000:
        # truly sparse operands of degree 100..500 over Fr: minutes in the kernel (one such case: 460 s)
        return max(case['args'][7][0::2] + case['args'][8][0::2] + [0]) <= 40
    if op in ('fld_rel', 'fld_sort', 'gt_rel', 'fld_params', 'gt_params'):
        kind, N = case['args'][0][1], case['args'][0][2]
        if kind >= 6:
            return False        # Fq6/Fq12 products on 381-bit Z
        if N >= 12 and kind > 1:
            return False
        if op == 'fld_rel' and 18 in case['args'][5] or op == 'fld_rel' and 28 in case['args'][5]:
            return N <= 4       # inversions
    return True


RULE = ('pairs of values produced by different operation sequences (commuted / re-associated / distributed field '
        'expressions, three scalar-multiplication paths, rescaled and normalised projective representatives, '
        'identity representatives with arbitrary coordinates, polynomial expressions over dense AND sparse operands: '
        'operators, conversions, division, evaluate/interpolate round trip, with equal / opposite / shared-monomial / '
        'leading-cancellation / zero / single-term / truly sparse operands over Fr and F_13) plus unequal neighbours '
        '(one limb / one coordinate / sign), over boundary operand classes; every ordered pair of F_13 (and of '
        'F_13^2 in the thorough tier); curve points A = T + s G with T ANY point of the curve by raw affine '
        'coordinates (orders 2, 4, 8 and the whole cofactor torsion on Jubjub, y = 0 / x = 0 points, points outside '
        'the prime-order subgroup on bls12_381 G1 / G2 and their multiples by r), every ordered pair of points of '
        'the whole toy curves (TE 20 points cofactor 4; SW 20 and 12 points cofactor 4 with full 2-torsion; SW 19 '
        'points prime order); multivariate SparsePolynomial<F, SparseTerm> expression pairs (32 codes: + - += -= +=(f,&q) '
        'neg zero() and their compositions, f in {0, 1, -1, 2, random}) over operands built from raw term lists with '
        'duplicates / zero coefficients / unordered or repeated variables / zero powers; curve points obtained by '
        'deserialize_with_mode (both Compress, both Validate modes) from canonical encodings, the infinity flag over blank '
        'and non-blank coordinate bytes, the other sign flag, small-order / out-of-subgroup points, compared with the '
        'identity, re-serialized and compared pairwise; non-trivial = some operand after the configuration arguments is non-zero; '
        'distinct = distinct case lines')
XCHECK = {'quick': 160, 'thorough': 600}
TRUSTED = ['std::collections::hash_map::DefaultHasher (SipHash-1-3, zero keys) is used only to compare two hashes '
           'with each other; the hasher is not modelled (a hash is an arbitrary function of the hashed structure)',
           'educe / derive(PartialEq, Hash) are modelled as field-wise equality / hashing of all fields',
           'coq/C01 Montgomery model (into_bigint), coq/C03 curve models and coq/C08 polynomial operator models (FFT / inverse FFT '
           'specified there, not modelled) are imported, see their packages',
           'coq/C17 multivariate operator models (MvPoly) and coq/C09 point codec models (PointCodec, with the executable '
           'square root / subgroup test of C09.Exec) are imported for mvpoly_rel / pt_decoded_rel, see their packages']
ASSUMPTIONS = ['default features, x86-64 (the unrolled top-down loop of BigInt::cmp)',
               'Fp elements are always reduced Montgomery representatives (C01 invariant): wf, length N, val < p']
HYPOTHESES = ['good_field F (field_theory of the dictionary operations with Leibniz equality, feqb decides '
              'equality, 1+1 <> 0) for the curve-point theorems', 'val m odd (modulus) for the Fp theorems',
              'ring_theory of the dictionary operations and feqb decides equality, for the multivariate-polynomial '
              'operator theorems']
