"""C20: the compile-time literal grid.

One deterministic description (fixed seed list below, independent of the per-run seed)
of every `const` that is compiled into the harness:
  * the grid fields (derive-macro configurations emitted into the generated Rust file, plus
    four ark_test_curves fields),
  * per field the list of (literal string, class) for `MontFp!` constants,
  * per limb count the list of `BigInt!` constants,
  * a few literals that are expanded in a NON-const context (run-time panic probes).
`render_rust()` produces harness/src/gen_c20/consts.rs; prop.gen() walks the same lists, so
the model is asked about exactly the strings the compiler saw.
"""
import random

GRID_SEEDS = [20260926, 1009, 77]        # one RNG per purpose, fixed: the constants are compiled in

# id, name, N, modulus, generator (a quadratic non-residue), small subgroup (base, power) or None,
# kind: 'derive' = #[derive(MontConfig)] struct emitted in the generated file; otherwise the path of an
# existing configuration type
FIELDS = [
    (0, 'tiny17', 1, 17, 3, None, 'derive'),
    (1, 'r62', 1, 2849647038907036733, 2, None, 'derive'),
    (2, 'p64_59', 1, 18446744073709551557, 2, None, 'derive'),                       # no spare bit
    (3, 'm127', 2, 2**127 - 1, 3, (3, 3), 'derive'),                                   # all ones below the top bit
    (4, 'p128_159', 2, 2**128 - 159, 5, None, 'derive'),                               # no spare bit
    (5, 'r65', 2, 19290714530962328327, 5, None, 'derive'),                            # top limb = 1
    (6, 'bn254_fr', 4, 21888242871839275222246405745257275088548364400416034343698204186575808495617, 5, (3, 2), 'derive'),
    (7, 'secp256k1_p', 4, 2**256 - 2**32 - 977, 3, None, 'derive'),                    # no spare bit
    (8, 'bls381_fq', 6, 4002409555221667393417789825735904156556882819939007885332058136124031650490837864442687629129015664037894272559787, 2, None, 'derive'),
    (9, 'p384', 6, 2**384 - 2**128 - 2**96 + 2**32 - 1, 19, None, 'derive'),           # no spare bit
    (10, 'mnt4_753_fq', 12, 41898490967918953402344214791240637128170709919953949071783502921025352812571106773058893763790338921418070971888253786114353726529584385201591605722013126468931404347949840543007986327743462853720628051692141265303114721689601, 17, None, 'derive'),
    (11, 'p768_825', 12, 2**768 - 825, 3, None, 'derive'),                             # no spare bit
    (12, 'tc_bls381_fr', 4, 52435875175126190479447740508185965837690552500527637822603658699938581184513, 7, (3, 1),
     'ark_test_curves::bls12_381::FrConfig'),
    (13, 'tc_bn384_fq', 6, 5945877603251831796258517492029536515488649313567122628447476625319762940580461319088175968449723373773214087057409, 7, (3, 2),
     'ark_test_curves::bn384_small_two_adicity::FqConfig'),
    (14, 'tc_secp256k1_fq', 4, 115792089237316195423570985008687907853269984665640564039457584007908834671663, 3, None,
     'ark_test_curves::secp256k1::FqConfig'),
    (15, 'tc_mnt4_753_fr', 12, 41898490967918953402344214791240637128170709919953949071783502921025352812571106773058893763790338921418070971888458477323173057491593855069696241854796396165721416325350064441470418137846398469611935719059908164220784476160001, 17, (5, 2),
     'ark_test_curves::mnt4_753::FrConfig'),
    # two-adicity at and beyond one limb: p - 1 has >= 64 trailing zero bits (the derive macro strips the factors of two of
    # p - 1 in arbitrary precision; a shortcut through the lowest 64-bit digit leaves the trace even)
    (16, 'ta64', 2, 25 * 2**64 + 1, 3, None, 'derive'),                                # two-adicity exactly 64
    (17, 'ta66', 2, (2**64 - 28) * 2**64 + 1, 7, (3, 1), 'derive'),                    # 128 bits, no spare bit, s = 66
    (18, 'ta70', 2, 279 * 2**70 + 1, 7, (3, 2), 'derive'),                             # s = 70, 3-adic small subgroup
    (19, 'ta130', 3, 205 * 2**130 + 1, 3, None, 'derive'),                             # s = 130 (two zero limbs), N = 3
    (20, 'stark252', 4, 2**251 + 17 * 2**192 + 1, 3, None, 'derive'),                  # s = 192
]
BIGINT_NS = [1, 2, 3, 4, 6, 12]

RADIX = {'dec': 10, 'hex': 16, 'oct': 8, 'bin': 2}


def digits(v, radix, upper=False):
    if v == 0:
        return '0'
    s = ''
    while v:
        d = v % radix
        s = ('0123456789ABCDEF' if upper else '0123456789abcdef')[d] + s
        v //= radix
    return s


def render(z, radix, style, rng, neg_zero=False):
    """style: plain | lead0 | lead0long | upper | plus | underscore   -> literal string"""
    neg = z < 0 or neg_zero
    v = abs(z)
    upper = style == 'upper'
    body = digits(v, RADIX[radix], upper and radix == 'hex')
    if style == 'lead0':
        body = '0' * rng.choice([1, 2, 3, 7]) + body
    elif style == 'lead0long':
        body = '0' * rng.choice([17, 33, 64]) + body            # more digits than the limbs could hold
    elif style == 'underscore' and len(body) > 1:
        k = rng.randrange(1, len(body))
        body = body[:k] + '_' + body[k:]
        if len(body) > 6:
            body = body[:-3] + '_' + body[-3:]
    elif style == 'plus':
        body = '+' + body
    prefix = {'dec': '', 'hex': '0x', 'oct': '0o', 'bin': '0b'}[radix]
    if upper:
        prefix = prefix.upper()
    return ('-' if neg else '') + prefix + body


def styles_for(rng):
    return rng.choice(['plain', 'plain', 'plain', 'lead0', 'lead0', 'lead0long', 'upper', 'upper', 'plus', 'underscore'])


def field_values(N, p, rng):
    """(z, class) with |z| < 2^(64N)"""
    W = 1 << (64 * N)
    bits = p.bit_length()
    vals = [(0, 'zero'), (1, 'one'), (-1, 'minus_one'), (2, 'two'), (p - 1, 'p-1'), (p, 'p'), (p + 1, 'p+1'),
            (-(p - 1), '-(p-1)'), (-p, '-p'), (-(p + 1), '-(p+1)'), (W - 1, 'W-1'), (-(W - 1), '-(W-1)'),
            (W - p, 'W-p'), (1 << (64 * N - 1), 'top_bit'), ((1 << 63) % W, '2^63'), ((1 << 64) - 1, '2^64-1'),
            (1 << (bits - 1), '2^(bits-1)'), ((p - 1) // 2, '(p-1)/2'), ((p + 1) // 2, '(p+1)/2'),
            (W % p, 'R_mod_p'), ((W * W) % p, 'R2_mod_p'), (-(W % p), '-R_mod_p')]
    if N > 1:
        vals += [(1 << 64, '2^64'), ((1 << 64) + 1, '2^64+1'), (W >> 64, 'top_limb_one'), (W - (1 << 64), 'low_limb_zero')]
    if (1 << bits) < W:
        vals.append((1 << bits, '2^bits'))
    for k in (2, 3):
        if k * p < W:
            vals += [(k * p, '%dp' % k), (k * p - 1, '%dp-1' % k), (-(k * p + 1), '-(%dp+1)' % k)]
    q = (W - 1) // p
    if q >= 2:
        kk = rng.randrange(1, q + 1)
        vals += [(q * p, 'max_multiple_of_p'), (kk * p + rng.randrange(3), 'kp+small')]
    for _ in range(3):
        vals.append((rng.randrange(p), 'random<p'))
    for _ in range(3):
        vals.append((rng.randrange(p, W), 'random>=p'))
    for _ in range(2):
        vals.append((-rng.randrange(W), 'random_negative'))
    e = rng.randrange(64 * N)
    vals.append((1 << e, 'pow2'))
    vals.append((-(1 << rng.randrange(64 * N)), '-pow2'))
    # alternating limbs
    vals.append((sum((0xFFFFFFFFFFFFFFFF if i % 2 == 0 else 0) << (64 * i) for i in range(N)), 'alt_limbs'))
    return vals


_cache = {}


def field_literals(fid):
    """list of (literal, z, class) for field fid -- deterministic"""
    if ('f', fid) in _cache:
        return _cache[('f', fid)]
    _, name, N, p, g, small, kind = FIELDS[fid]
    rng = random.Random(GRID_SEEDS[0] * 1000 + fid)
    out = []
    vals = field_values(N, p, rng)
    for k, (z, cls) in enumerate(vals):
        if p == 17:
            radices = ['dec', 'hex', 'oct', 'bin']
        elif cls.startswith('random') or cls in ('pow2', '-pow2', 'kp+small'):
            radices = [rng.choice(['dec', 'hex', 'oct', 'bin'])]
        else:
            radices = ['dec', 'hex', 'oct', 'bin']
        for r in radices:
            st = styles_for(rng)
            out.append((render(z, r, st, rng), z, '%s/%s/%s' % (cls, r, st)))
    # "-0" in every radix: sign flag of zero
    for r in ['dec', 'hex', 'oct', 'bin']:
        out.append((render(0, r, 'plain', rng, neg_zero=True), 0, 'neg_zero/%s/plain' % r))
    if p == 17:
        # toy field: every residue and its negative, plus all of 0..255 in mixed radices (N = 1)
        for z in range(-40, 256):
            r = ['dec', 'hex', 'oct', 'bin'][z % 4]
            out.append((render(z, r, 'plain', rng), z, 'toy_sweep/%s/plain' % r))
    _cache[('f', fid)] = out
    return out


def field_rt_literals(fid):
    """literals expanded in a non-const context: (literal, class, z or None); the too-long ones panic at run time"""
    _, name, N, p, g, small, kind = FIELDS[fid]
    rng = random.Random(GRID_SEEDS[1] * 1000 + fid)
    W = 1 << (64 * N)
    out = [(render(W - 1, 'hex', 'plain', rng), 'rt/W-1/fits'),
           (render(W, 'hex', 'plain', rng), 'rt/W/too_long'),
           (render(-W, 'dec', 'plain', rng), 'rt/-W/too_long'),
           (render(W + rng.randrange(W), 'bin', 'plain', rng), 'rt/random>W/too_long'),
           (render(W << 64, 'oct', 'plain', rng), 'rt/W*2^64/too_long'),
           (render(rng.randrange(W), 'dec', 'lead0long', rng), 'rt/random/leading_zeros_fit'),
           (render(-(p + 5), 'oct', 'upper', rng) if p + 5 < W else '-1', 'rt/-(p+5)/fits')]
    return out


def bigint_literals(N):
    if ('b', N) in _cache:
        return _cache[('b', N)]
    rng = random.Random(GRID_SEEDS[2] * 1000 + N)
    W = 1 << (64 * N)
    vals = [(0, 'zero'), (1, 'one'), (W - 1, 'W-1'), (W >> 1, 'top_bit'), ((1 << 64) - 1, '2^64-1'), (1 << 63, '2^63'),
            (W >> 64 if N > 1 else 5, 'top_limb_one'), (10**18, '10^18')]
    if N > 1:
        vals += [(1 << 64, '2^64'), ((1 << 64) + 1, '2^64+1'), (W - (1 << 64), 'low_limb_zero')]
    for _ in range(4):
        vals.append((rng.randrange(W), 'random'))
    for _ in range(2):
        vals.append((rng.getrandbits(rng.randrange(1, 64 * N)), 'random_short'))
    out = []
    for (z, cls) in vals:
        for r in ['dec', 'hex', 'oct', 'bin']:
            st = styles_for(rng)
            out.append((render(z, r, st, rng), z, 'bigint/%s/%s/%s' % (cls, r, st)))
    out.append(('-0', 0, 'bigint/neg_zero/dec/plain'))
    out.append(('-0x0', 0, 'bigint/neg_zero/hex/plain'))
    _cache[('b', N)] = out
    return out


def bigint_rt_literals(N):
    rng = random.Random(GRID_SEEDS[2] * 7000 + N)
    W = 1 << (64 * N)
    return [(render(W - 1, 'dec', 'plain', rng), 'bigint_rt/W-1/fits'),
            (render(W, 'dec', 'plain', rng), 'bigint_rt/W/too_long'),
            (render(W, 'hex', 'lead0', rng), 'bigint_rt/W/too_long'),
            ('-1', 'bigint_rt/negative'),
            (render(-(W - 1), 'hex', 'plain', rng), 'bigint_rt/negative'),
            (render(rng.randrange(W), 'oct', 'lead0long', rng), 'bigint_rt/random/leading_zeros_fit')]


def limbs(v, n):
    return [(v >> (64 * i)) & 0xFFFFFFFFFFFFFFFF for i in range(n)]


def rs_str(s):
    return '"' + s + '"'


def render_rust():
    o = []
    w = o.append
    w('// GENERATED by props/C20/grid.py (render_rust) from the fixed seed list %r -- do not edit.' % (GRID_SEEDS,))
    w('// `./check C20` regenerates this file before the harness build; identical content for identical seeds.')
    w('// Included by harness/src/bin/c20.rs.')
    for (fid, name, N, p, g, small, kind) in FIELDS:
        w('')
        w('// ---- field %d: %s  (N = %d, %d bits) ----' % (fid, name, N, p.bit_length()))
        if kind == 'derive':
            w('#[derive(MontConfig)]')
            w('#[modulus = "%d"]' % p)
            w('#[generator = "%d"]' % g)
            if small:
                w('#[small_subgroup_base = "%d"]' % small[0])
                w('#[small_subgroup_power = "%d"]' % small[1])
            w('pub struct G%dConfig;' % fid)
            cfg = 'G%dConfig' % fid
        else:
            cfg = kind
        w('pub type G%d = Fp<MontBackend<%s, %d>, %d>;' % (fid, cfg, N, N))
        w('pub static INFO_%d: (&str, &str, &str, &str) = ("%d", "%d", "%s", "%s");' % (
            fid, p, g, small[0] if small else '', small[1] if small else ''))
        lits = field_literals(fid)
        w('pub static LITS_%d: [&str; %d] = [' % (fid, len(lits)))
        for (s, z, c) in lits:
            w('    %s,' % rs_str(s))
        w('];')
        w('pub static CONSTS_%d: [G%d; %d] = [' % (fid, fid, len(lits)))
        for (s, z, c) in lits:
            w('    MontFp!(%s),' % rs_str(s))
        w('];')
        rts = field_rt_literals(fid)
        w('pub static RTL_%d: [(&str, fn() -> G%d); %d] = [' % (fid, fid, len(rts)))
        for (s, c) in rts:
            w('    (%s, || MontFp!(%s)),' % (rs_str(s), rs_str(s)))
        w('];')
    for N in BIGINT_NS:
        w('')
        w('// ---- BigInt<%d> ----' % N)
        lits = bigint_literals(N)
        w('pub static BLITS_%d: [&str; %d] = [' % (N, len(lits)))
        for (s, z, c) in lits:
            w('    %s,' % rs_str(s))
        w('];')
        w('pub static BCONSTS_%d: [BigInt<%d>; %d] = [' % (N, N, len(lits)))
        for (s, z, c) in lits:
            w('    BigInt!(%s),' % rs_str(s))
        w('];')
        rts = bigint_rt_literals(N)
        w('pub static BRT_%d: [(&str, fn() -> BigInt<%d>); %d] = [' % (N, N, len(rts)))
        for (s, c) in rts:
            w('    (%s, || BigInt!(%s)),' % (rs_str(s), rs_str(s)))
        w('];')
    w('')
    w('pub fn dispatch_field(cfg: u64, op: &str, a: &[Arg]) -> Vec<Arg> {')
    w('    match cfg {')
    for (fid, name, N, p, g, small, kind) in FIELDS:
        cfg = 'G%dConfig' % fid if kind == 'derive' else kind
        w('        %d => run_f::<%s, %d>(op, a, &INFO_%d, &LITS_%d, &CONSTS_%d, &RTL_%d),' % (fid, cfg, N, fid, fid, fid, fid))
    w('        _ => unsupported(),')
    w('    }')
    w('}')
    w('')
    w('pub fn dispatch_bigint(n: u64, op: &str, a: &[Arg]) -> Vec<Arg> {')
    w('    match n {')
    for N in BIGINT_NS:
        w('        %d => run_b::<%d>(op, a, &BLITS_%d, &BCONSTS_%d, &BRT_%d),' % (N, N, N, N, N))
    w('        _ => unsupported(),')
    w('    }')
    w('}')
    return '\n'.join(o) + '\n'


def write_if_changed(path, text):
    import os
    os.makedirs(os.path.dirname(path), exist_ok=True)
    if os.path.exists(path) and open(path).read() == text:
        return False
    tmp = path + '.tmp'
    with open(tmp, 'w') as f:
        f.write(text)
    os.replace(tmp, path)
    return True


if __name__ == '__main__':
    import sys
    t = render_rust()
    n = sum(len(field_literals(f[0])) for f in FIELDS)
    nb = sum(len(bigint_literals(N)) for N in BIGINT_NS)
    print('MontFp consts: %d, BigInt consts: %d, bytes: %d' % (n, nb, len(t)), file=sys.stderr)
    if len(sys.argv) > 1:
        print(write_if_changed(sys.argv[1], t))
