"""C20: compile-time literals denote the number that is written.  Case generator + metadata."""
import sys, os
sys.path.insert(0, '/verif/lib')
sys.path.insert(0, os.path.dirname(os.path.abspath(__file__)))
import grid

OPS = {'const': 1, 'rt_lit': 2, 'from_sign_and_limbs': 3, 'fp_new': 4, 'from_str': 5, 'from_biguint': 6,
       'derive': 7, 'bigint_const': 8, 'bigint_rt': 9}

M64 = (1 << 64) - 1
GEN_FILE = 'src/gen_c20/consts.rs'


def pre(ctx):
    """regenerate the Rust constant tables (deterministic: fixed seed list in grid.py) before the harness build"""
    path = os.path.join(ctx.get('ROOT', '/verif'), 'harness', GEN_FILE)
    if grid.write_if_changed(path, grid.render_rust()):
        ctx['notes'].append('harness/%s regenerated' % GEN_FILE)


def limbs(v, n):
    return [(v >> (64 * i)) & M64 for i in range(n)]


def chars(s):
    return [ord(c) for c in s]


def minimal_limbs(v):
    out = []
    while True:
        out.append(v & M64)
        v >>= 64
        if v == 0:
            return out


def operand(rng, n, p):
    """an integer in [0, 2^(64n)) from the boundary classes of the const multiplication"""
    W = 1 << (64 * n)
    k = rng.randrange(16)
    if k == 0:
        return 0, 'zero'
    if k == 1:
        return rng.choice([1, 2, 3]), 'small'
    if k == 2:
        return p - rng.choice([1, 2]), 'p-'
    if k == 3:
        return p, 'p'
    if k == 4:
        return min(W - 1, p + rng.choice([1, 2])), 'p+'
    if k == 5:
        return W - 1 - rng.choice([0, 0, 1]), 'W-'
    if k == 6:
        q = (W - 1) // p
        return rng.randrange(1, q + 1) * p, 'multiple_of_p'
    if k == 7:
        q = (W - 1) // p
        v = rng.randrange(1, q + 1) * p + rng.choice([1, p - 1])
        return (v if v < W else q * p - 1), 'kp+-1'
    if k == 8:
        return 1 << rng.randrange(64 * n), 'pow2'
    if k == 9:
        return W >> 1, 'top_bit'
    if k == 10:
        return sum((M64 if (i + rng.randrange(2)) % 2 else 0) << (64 * i) for i in range(n)), 'alt_limbs'
    if k == 11:
        return (W % p), 'R'
    if k == 12:
        return rng.randrange(p), 'random<p'
    if k == 13:
        hi = rng.randrange(1, n + 1)
        return rng.getrandbits(64 * hi), 'dense_short'
    return rng.randrange(p, W), 'random>=p'


# Special-case branches of the anchored Rust code and the generated class that executes each:
#   str_to_limbs_u64: leading '-' ................ */minus_one, -p, -(W-1), neg_zero/* (sign of zero stays positive)
#                     0x/0X, 0o/0O, 0b/0B, none .. */hex|oct|bin|dec/*, style 'upper' gives the capital prefix
#                     from_str_radix '+', '_' ..... style 'plus', 'underscore'; leading zeros: 'lead0', 'lead0long'
#                     to_radix_le(16) of zero ..... zero/*, neg_zero/* (limbs = [0])
#                     chunk of < 16 hexits ........ every value whose top limb is short (2^64, top_limb_one, small)
#                     chunk of exactly 16 ......... W-1, 2^64-1, top_bit
#   BigInt!: assert!(is_positive) ................ bigint_rt/negative (run-time panic probe)
#            assert!(len >= limbs.len()) ......... bigint_rt/W/too_long
#   from_sign_and_limbs: assert!(len <= N) ....... rt/*/too_long, op from_sign_and_limbs class 'len>N'
#                        fewer than N limbs ...... class 'len<N', every small literal
#                        !is_positive -> const_neg  negative literals; const_neg of zero: -p, -2p.., neg of 0
#   Fp::new: const_is_zero early return .......... zero/*, operand class 'zero'
#   const mul: MODULUS_HAS_SPARE_BIT branch ...... fields r62, m127, r65, bn254_fr, bls381_fq, mnt4_753_fq, tc_*
#              no-spare-bit branch with carry .... p64_59, p128_159, secp256k1_p, p384, p768_825, tc_secp256k1_fq with
#                                                 operands >= p (W-1, random>=p, kp+-1): t >= 2^(64N) occurs
#              const_is_valid: <, >, == paths .... operands p-1 / p+1 / p and multiples of p (result t == p -> 0)
#   derive: limb-count loop 0, 1, 3, 5, 11 turns . N = 1, 2, 4, 6, 12; modulus just below 2^(64N) (no spare bit)
#           small_subgroup (Some, Some) / (None, None) . m127, bn254_fr, tc_* / the others
def gen(rng, tier):
    scale = 1 if tier == 'quick' else 25
    # 1. every compiled constant (the grid is fixed at compile time; identical in both tiers)
    for f in grid.FIELDS:
        fid, name, N, p = f[0], f[1], f[2], f[3]
        m = limbs(p, N)
        for idx, (s, z, cls) in enumerate(grid.field_literals(fid)):
            yield 'const', [[fid, idx], m, chars(s), [1 if z < 0 else 0, abs(z)], chars(str(z))], 'const/%s' % cls
        for idx, (s, cls) in enumerate(grid.field_rt_literals(fid)):
            yield 'rt_lit', [[fid, idx], m, chars(s)], cls
        small = f[5]
        yield 'derive', [[fid], chars(str(p)), chars(str(f[4])), list(small) if small else []], 'derive/' + name
    for N in grid.BIGINT_NS:
        for idx, (s, z, cls) in enumerate(grid.bigint_literals(N)):
            yield 'bigint_const', [[N, idx], chars(s)], cls
        for idx, (s, cls) in enumerate(grid.bigint_rt_literals(N)):
            yield 'bigint_rt', [[N, idx], chars(s)], cls
    # 2. the const constructors called at run time on a dense boundary stream
    for _ in range(1500 * scale):
        f = rng.choice(grid.FIELDS)
        fid, N, p = f[0], f[2], f[3]
        m = limbs(p, N)
        v, cv = operand(rng, N, p)
        r = rng.randrange(10)
        if r < 4:
            yield 'fp_new', [[fid], m, limbs(v, N)], 'fp_new/' + cv
        elif r < 8:
            pos = rng.randrange(2)
            l = minimal_limbs(v)
            k = rng.randrange(8)
            lc = 'minimal'
            if k == 0:
                l = limbs(v, N); lc = 'len=N'
            elif k == 1 and len(l) < N:
                l = l + [0]; lc = 'len<N_padded'
            elif k == 2:
                l = limbs(v, N) + [0] * rng.choice([1, 2]); lc = 'len>N'          # panics even though the value fits
            elif k == 3:
                l = limbs(v, N) + [rng.choice([1, M64])]; lc = 'len>N'
            elif k == 4:
                l = []; lc = 'empty'
            yield 'from_sign_and_limbs', [[fid], m, [pos], l], 'fsl/%s/%s/%s' % ('pos' if pos else 'neg', cv, lc)
        elif r == 8:
            z = v if rng.randrange(2) else -v
            s = str(z)
            k = rng.randrange(6)
            if k == 0:
                s = ('-' if z < 0 else '') + '000' + str(abs(z)); cv += '/leading_zeros'
            elif k == 1 and z >= 0:
                s = '+' + s; cv += '/plus'
            elif k == 2:
                s = s + rng.choice(['x', ' ', 'a']); cv += '/bad_char'
            elif k == 3:
                s = '0x' + s; cv += '/hex_prefix_rejected'
            yield 'from_str', [[fid], m, chars(s)], 'from_str/' + cv
        else:
            big = v if rng.randrange(3) else v * rng.randrange(1, 1 << 70) + rng.randrange(5)
            yield 'from_biguint', [[fid], m, [big]], 'from_biguint/' + cv


def nontrivial(case, out):
    return any(any(x != 0 for x in a) for a in case['args'][2:])


def xcheck_ok(case):
    # in-kernel re-evaluation: stdlib Z; keep the 12-limb configurations and the 768-bit `pow` of `derive` out
    if case['op'] == 'derive':
        return len(case['args'][1]) < 60
    if case['op'] in ('bigint_const', 'bigint_rt'):
        return True
    return len(case['args'][1]) <= 6


RULE = ('every constant compiled into the harness (grid.py: 16 fields x special values 0, +-1, p-1, p, p+1, multiples of p, '
        '2^(64N)-1, powers of two, R, R2, random; decimal/hex/octal/binary; signs, leading zeros, capital prefixes, +, _) '
        'plus a run-time stream of Fp::new / from_sign_and_limbs / from_str / From<BigUint> on boundary operands; '
        'non-trivial = some argument after the modulus is non-zero; distinct = distinct case lines')
XCHECK = {'quick': 160, 'thorough': 800}
TRUSTED = ['num-bigint (from_str_radix, to_radix_le, modpow, to_string, shifts) is modelled by arbitrary-precision Z, not verified',
           'props/C20/grid.py renders the literal strings into harness/src/gen_c20/consts.rs; the harness checks that the string '
           'of each case equals the string compiled next to the constant']
ASSUMPTIONS = ['default features, x86-64, no asm feature',
               'rustc evaluates `const`/`static` initialisers with the same semantics as run-time execution of the same const fn',
               'literals with nested signs ("--5", "0x-5") are accepted by the macro and covered by the model and the theorems, '
               'but are not compiled into the grid (a harmless tightening of the parser must not break the harness build)']
HYPOTHESES = []
