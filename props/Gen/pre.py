"""Gen -- pre-build hook of the T-field translator (lib/xlate_field.py).

`regen(ctx)` re-generates coq/Gen/GenField.v from the CURRENT source text of ctx['REPO'] (default
/repo) before the Coq build, so that coq/Gen/GenFieldSpecs.v and coq/Props/Gen.v are re-checked
against what the code says now.  It is meant to be called from the `pre(ctx)` hooks of props/C02
and props/C03 (which also list 'Gen' in EXTRA_PROP_FILES).

A source text outside the translator's Rust subset is NOT a violation by itself (DESIGN 4.2 E):
the previous GenField.v stays, a note goes into the evidence, and the correspondence checks of
C02 / C03 still compare the real functions with the hand-written models.
"""
import os
import sys

_LIB = os.path.join(os.path.dirname(os.path.dirname(os.path.dirname(os.path.abspath(__file__)))), 'lib')
if _LIB not in sys.path:
    sys.path.insert(0, _LIB)


def regen(ctx):
    import xlate_field
    repo = ctx.get('REPO', '/repo')
    dst = ctx.get('COQ', '/verif/coq') + '/Gen/GenField.v'
    notes = ctx.setdefault('notes', [])
    try:
        prev = open(dst).read() if os.path.exists(dst) else None
        # per-target best effort: a function outside the Rust subset keeps its previous generated
        # definition (listed in a note), all the others are still regenerated
        text, failures = xlate_field.translate_all(repo, prev)
    except xlate_field.TranslateError as e:
        notes.append('T-field translator could not translate the current source: %s '
                     '(kept previous Gen/GenField.v; correspondence only for the affected functions)' % e)
        return False
    except Exception as e:                      # a bug in the translator must not stop the check
        notes.append('T-field translator internal error: %r (kept previous Gen/GenField.v)' % (e,))
        return False
    for name, msg in failures:
        notes.append('T-field translator: %s not translatable now (%s); its previous generated definition is kept, '
                     'correspondence only for that function' % (name, msg))
    if xlate_field.write_if_changed(dst, text):
        notes.append('Gen/GenField.v regenerated: field-level source (group law / extension towers) changed')
        return True
    return False


TARGETS = ['Gen/GenField.vo', 'Gen/GenFieldSpecs.vo', 'Props/Gen.vo']


def verify(ctx, timeout=1800):
    """Build the Gen obligations (under the shared build lock).  Returns None when they hold, else a
    one-line description naming the first lemma of Gen/GenFieldSpecs.v (or theorem of Props/Gen.v)
    that no longer holds of the regenerated definitions -- i.e. the Rust function whose formula
    changed.  A failure here is a LOST OBLIGATION (unlike a TranslateError)."""
    import re
    import vcheck
    rc, out = vcheck.coq_make(TARGETS, timeout=timeout)
    if rc == 0:
        return None
    m = re.search(r'File "\./([^"]+)", line (\d+)', out)
    if not m:
        return 'Gen obligations do not build: %s' % out[-300:].replace('\n', ' ')
    f, line = m.group(1), int(m.group(2))
    lem = '?'
    try:
        src = open(os.path.join(ctx.get('COQ', '/verif/coq'), f)).read().splitlines()[:line]
        ls = [l for l in src if re.match(r'\s*(Lemma|Theorem|Example)\s', l)]
        if ls:
            lem = ls[-1].split()[1]
    except OSError:
        pass
    return 'generated definition no longer equals its model: %s line %d, %s' % (f, line, lem)
