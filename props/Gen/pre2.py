"""Gen, phase 3 -- pre-build hook of the second target table of the T-field translator
(lib/xlate_field.py --table2): hash-to-curve maps (C13), coordinate recovery / sign flags (C09),
subgroup tests, cofactor clearing and endomorphisms (C12).

`regen(ctx)` re-generates coq/Gen/GenField2.v from the CURRENT source text of ctx['REPO'] before the Coq
build, so that coq/Gen/GenField2Specs.v and coq/Props/Gen2.v are re-checked against what the code says
now.  Same contract as props/Gen/pre.py: per-target best effort -- a function outside the translator's
Rust subset keeps its previous generated definition and a note goes into the evidence (DESIGN 4.2 E:
not a violation by itself; the correspondence checks of C09 / C12 / C13 still run the real functions).
Meant to be called from the `pre(ctx)` hooks of props/C09, props/C12 and props/C13 (which list 'Gen2'
in EXTRA_PROP_FILES / STRICT_PROP_FILES).
"""
import os
import sys

_LIB = os.path.join(os.path.dirname(os.path.dirname(os.path.dirname(os.path.abspath(__file__)))), 'lib')
if _LIB not in sys.path:
    sys.path.insert(0, _LIB)


def regen(ctx):
    import xlate_field
    repo = ctx.get('REPO', '/repo')
    dst = ctx.get('COQ', '/verif/coq') + '/Gen/GenField2.v'
    notes = ctx.setdefault('notes', [])
    try:
        prev = open(dst).read() if os.path.exists(dst) else None
        text, failures = xlate_field.translate_all(repo, prev, 2)
    except xlate_field.TranslateError as e:
        notes.append('T-field translator (table 2) could not translate the current source: %s '
                     '(kept previous Gen/GenField2.v; correspondence only for the affected functions)' % e)
        return False
    except Exception as e:                      # a bug in the translator must not stop the check
        notes.append('T-field translator (table 2) internal error: %r (kept previous Gen/GenField2.v)' % (e,))
        return False
    for name, msg in failures:
        notes.append('T-field translator: %s not translatable now (%s); its previous generated definition is kept, '
                     'correspondence only for that function' % (name, msg))
    if xlate_field.write_if_changed(dst, text):
        notes.append('Gen/GenField2.v regenerated: hash-to-curve / point-recovery / subgroup source changed')
        return True
    return False


TARGETS = ['Gen/GenField2.vo', 'Gen/GenField2Specs.vo', 'Props/Gen2.vo']


def verify(ctx, timeout=1800):
    """Build the phase-3 obligations (under the shared build lock).  None when they hold, else a one-line
    description naming the first lemma of Gen/GenField2Specs.v (or theorem of Props/Gen2.v) that no longer
    holds of the regenerated definitions, i.e. the Rust function whose text changed: a LOST OBLIGATION."""
    import re
    import vcheck
    rc, out = vcheck.coq_make(TARGETS, timeout=timeout)
    if rc == 0:
        return None
    m = re.search(r'File "\./([^"]+)", line (\d+)', out)
    if not m:
        return 'Gen2 obligations do not build: %s' % out[-300:].replace('\n', ' ')
    f, line = m.group(1), int(m.group(2))
    lem = '?'
    try:
        src = open(os.path.join(ctx.get('COQ', '/verif/coq'), f)).read().splitlines()[:line]
        ls = [l for l in src if re.match(r'\s*(Lemma|Theorem|Example)\s', l)]
        if ls:
            lem = ls[-1].split()[1]
    except OSError:
        pass
    return 'generated definition no longer equals its model: %s line %d, %s' % (f, line, lem)
