"""Gen, phase 4 -- pre-build hook of the third target table of the T-field translator
(lib/xlate_field.py --table3): per-curve overrides of configuration hooks in curves/*/src and
test-curves/src (non-residue hooks of Fp2Config / Fp3Config / Fp6Config, `mul_by_a`), cubic norm,
cyclotomic inverses, mul_by_fp helpers, Frobenius-coefficient hooks (C02), subtraction wrappers (C03),
cofactor multiplication / clearing and Budroni-Pintore clearing (C12).

`regen(ctx)` re-generates coq/Gen/GenField3.v from the CURRENT source text of ctx['REPO'] before the Coq
build, so that coq/Gen/GenField3Specs.v and coq/Props/Gen3.v are re-checked against what the code says
now.  Same contract as props/Gen/pre.py / pre2.py: per-target best effort -- a function outside the
translator's Rust subset keeps its previous generated definition and a note goes into the evidence
(DESIGN 4.2 E: not a violation by itself; the correspondence checks still run the real functions);
never raises.  An override of a translated hook that appears in a curve crate but is not in the target
table is listed in a note (uncovered, not a violation).
Meant to be called from the `pre(ctx)` hooks of props/C02, C03, C12, C16 (which list 'Gen3' in
EXTRA_PROP_FILES / STRICT_PROP_FILES).
"""
import os
import re
import sys

_LIB = os.path.join(os.path.dirname(os.path.dirname(os.path.dirname(os.path.abspath(__file__)))), 'lib')
if _LIB not in sys.path:
    sys.path.insert(0, _LIB)

HOOK_FNS = ('mul_by_a', 'add_b', 'mul_fp_by_nonresidue_in_place', 'mul_fp_by_nonresidue_and_add',
            'mul_fp_by_nonresidue_plus_one_and_add', 'sub_and_mul_fp_by_nonresidue', 'mul_fp2_by_nonresidue_in_place',
            'mul_fp3_by_nonresidue_in_place', 'mul_fp6_by_nonresidue_in_place')


def uncovered_overrides(repo, xlate_field):
    """(file, fn) pairs of hook overrides under curves/*/src and test-curves/src that table 3 does not list"""
    listed = set((t['file'], t['fn']) for t in xlate_field.TARGETS3)
    out = []
    roots = [os.path.join(repo, 'curves'), os.path.join(repo, 'test-curves', 'src')]
    pat = re.compile(r'\bfn\s+(%s)\b' % '|'.join(HOOK_FNS))
    for root in roots:
        for d, _, files in os.walk(root):
            if os.sep + 'src' not in d + os.sep and not d.endswith('src'):
                continue
            for f in files:
                if not f.endswith('.rs'):
                    continue
                p = os.path.join(d, f)
                try:
                    text = xlate_field.strip_comments(open(p).read())
                except OSError:
                    continue
                rel = os.path.relpath(p, repo)
                for m in pat.finditer(text):
                    if (rel, m.group(1)) not in listed:
                        out.append((rel, m.group(1)))
    return sorted(set(out))


def regen(ctx):
    notes = ctx.setdefault('notes', [])
    try:
        import xlate_field
        repo = ctx.get('REPO', '/repo')
        dst = ctx.get('COQ', '/verif/coq') + '/Gen/GenField3.v'
        try:
            prev = open(dst).read() if os.path.exists(dst) else None
            text, failures = xlate_field.translate_all(repo, prev, 3)
        except xlate_field.TranslateError as e:
            notes.append('T-field translator (table 3) could not translate the current source: %s '
                         '(kept previous Gen/GenField3.v; correspondence only for the affected functions)' % e)
            return False
        for name, msg in failures:
            notes.append('T-field translator: %s not translatable now (%s); its previous generated definition is kept, '
                         'correspondence only for that function' % (name, msg))
        try:
            for rel, fn in uncovered_overrides(repo, xlate_field):
                notes.append('T-field translator (table 3): override `%s` in %s is not in the target table '
                             '(uncovered by Gen3; correspondence only)' % (fn, rel))
        except Exception as e:
            notes.append('T-field translator (table 3): scan for unlisted overrides failed: %r' % (e,))
        if xlate_field.write_if_changed(dst, text):
            notes.append('Gen/GenField3.v regenerated: a per-curve hook override / tower helper / cofactor source changed')
            return True
        return False
    except Exception as e:                      # a bug in the translator must not stop the check
        notes.append('T-field translator (table 3) internal error: %r (kept previous Gen/GenField3.v)' % (e,))
        return False


TARGETS = ['Gen/GenField3.vo', 'Gen/GenField3Specs.vo', 'Props/Gen3.vo']


def verify(ctx, timeout=1800):
    """Build the phase-4 obligations (under the shared build lock).  None when they hold, else a one-line
    description naming the first lemma of Gen/GenField3Specs.v (or theorem of Props/Gen3.v) that no longer
    holds of the regenerated definitions, i.e. the Rust function whose text changed: a LOST OBLIGATION."""
    import vcheck
    rc, out = vcheck.coq_make(TARGETS, timeout=timeout)
    if rc == 0:
        return None
    m = re.search(r'File "\./([^"]+)", line (\d+)', out)
    if not m:
        return 'Gen3 obligations do not build: %s' % out[-300:].replace('\n', ' ')
    f, line = m.group(1), int(m.group(2))
    lem = '?'
    try:
        src = open(os.path.join(ctx.get('COQ', '/verif/coq'), f)).read().splitlines()[:line]
        ls = [l for l in src if re.match(r'\s*(Lemma|Theorem|Example)\s', l)]
        if ls:
            lem = ls[-1].split()[1]
    except OSError:
        pass
    return 'generated definition no longer equals its model: %s line %d, %s' % (f, line, lem)
