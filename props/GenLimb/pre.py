"""GenLimb -- pre-build hook of the T-limb translator (lib/xlate_limb.py).

`regen(ctx)` re-generates coq/GenLimb/GenLimb.v from the CURRENT source text of ctx['REPO'] (default
/repo) before the Coq build, so that coq/GenLimb/GenLimbSpecs.v and coq/Props/GenLimb.v are re-checked
against what the limb-level code (BigInt<N> arithmetic, MontConfig default methods) says now.  It is
meant to be called from the `pre(ctx)` hooks of props/C15 and props/C01 (which also list 'GenLimb' in
EXTRA_PROP_FILES).

A source text outside the translator's Rust subset is NOT a violation by itself (DESIGN 4.2 E):
translation is per (function, N); a definition that cannot be translated keeps its previous text (or is
omitted when there is none), a note goes into the evidence, and the correspondence checks of C15 / C01
still compare the real functions with the hand-written models.
"""
import os
import sys

_LIB = os.path.join(os.path.dirname(os.path.dirname(os.path.dirname(os.path.abspath(__file__)))), 'lib')
if _LIB not in sys.path:
    sys.path.insert(0, _LIB)


def regen(ctx):
    import xlate_limb
    repo = ctx.get('REPO', '/repo')
    dst = ctx.get('COQ', '/verif/coq') + '/GenLimb/GenLimb.v'
    notes = ctx.setdefault('notes', [])
    try:
        prev = open(dst).read() if os.path.exists(dst) else None
        text, failures = xlate_limb.translate(repo, prev)
    except xlate_limb.TranslateError as e:
        notes.append('T-limb translator could not translate the current source: %s '
                     '(kept previous GenLimb/GenLimb.v; correspondence only for the limb-level functions)' % e)
        return False
    except Exception as e:                      # a bug in the translator must not stop the check
        notes.append('T-limb translator internal error: %r (kept previous GenLimb/GenLimb.v)' % (e,))
        return False
    for name, msg, kept in failures:
        notes.append('T-limb translator: %s not translated: %s (%s; correspondence only for that function)'
                     % (name, msg, 'kept its previous text' if kept else 'definition omitted'))
    if xlate_limb.write_if_changed(dst, text):
        notes.append('GenLimb/GenLimb.v regenerated: limb-level source (biginteger/mod.rs, montgomery_backend.rs, '
                     'fp/mod.rs, const_helpers.rs) changed')
        return True
    return False


TARGETS = ['GenLimb/GenLimb.vo', 'GenLimb/GenLimbSpecs.vo', 'Props/GenLimb.vo']


def verify(ctx, timeout=1800):
    """Build the GenLimb obligations (under the shared build lock).  Returns None when they hold, else a
    one-line description naming the first lemma of GenLimb/GenLimbSpecs.v (or theorem of Props/GenLimb.v)
    that no longer holds of the regenerated definitions -- i.e. the (Rust function, N) whose loop changed.
    A failure here is a LOST OBLIGATION (unlike a TranslateError)."""
    import re
    import vcheck
    rc, out = vcheck.coq_make(TARGETS, timeout=timeout)
    if rc == 0:
        return None
    m = re.search(r'File "\./([^"]+)", line (\d+)', out)
    if not m:
        return 'GenLimb obligations do not build: %s' % out[-300:].replace('\n', ' ')
    f, line = m.group(1), int(m.group(2))
    lem = '?'
    try:
        src = open(os.path.join(ctx.get('COQ', '/verif/coq'), f)).read().splitlines()[:line]
        ls = [l for l in src if re.match(r'\s*(Lemma|Theorem|Example)\s', l)]
        if ls:
            lem = ls[-1].split()[1]
    except OSError:
        pass
    return 'generated definition no longer equals its model: %s line %d, %s' % (f, line, lem)
