#!/usr/bin/env python3
"""Self-test of T-serde (props/GenSer/NOTES.md, "Self-test"): mutate a scratch copy of the derive macros
(<scratch>/repo = Cargo.toml, Cargo.lock, serialize/, serialize-derive/ of /repo), regenerate GenSer.v into a scratch Coq tree
(symlinks to /verif/coq, own GenSer/ and Props/) and rebuild the obligations there.  Everything under /tmp/genser_selftest,
deleted at the end; /repo and /verif/coq are only read.   python3 props/GenSer/selftest.py [case numbers]"""
import os, re, shutil, subprocess, sys, time
sys.path.insert(0, '/verif/lib')
ROOT = '/tmp/genser_selftest'
REPO = ROOT + '/repo'
COQ = ROOT + '/coq'

def sh(cmd, **kw):
    return subprocess.run(cmd, shell=isinstance(cmd, str), stdout=subprocess.PIPE, stderr=subprocess.STDOUT, text=True, **kw)

def fresh_repo():
    shutil.rmtree(REPO, ignore_errors=True)
    os.makedirs(REPO)
    for f in ('Cargo.toml', 'Cargo.lock'):
        shutil.copy('/repo/' + f, REPO + '/' + f)
    for d in ('serialize', 'serialize-derive'):
        shutil.copytree('/repo/' + d, REPO + '/' + d)

def fresh_coq():
    shutil.rmtree(COQ, ignore_errors=True)
    os.makedirs(COQ + '/GenSer'); os.makedirs(COQ + '/Props')
    for d in os.listdir('/verif/coq'):
        p = '/verif/coq/' + d
        if os.path.isdir(p) and d not in ('GenSer', 'Props'):
            os.symlink(p, COQ + '/' + d)
    for f in ('GenSerBase.v', 'GenSerSpecs.v', 'GenSer.v'):
        shutil.copy('/verif/coq/GenSer/' + f, COQ + '/GenSer/' + f)
    shutil.copy('/verif/coq/Props/GenSer.v', COQ + '/Props/GenSer.v')

def build():
    """None if all three files compile, else (file, line, lemma)"""
    for f in ('GenSer/GenSerBase.v', 'GenSer/GenSer.v', 'GenSer/GenSerSpecs.v', 'Props/GenSer.v'):
        t0 = time.time()
        r = sh(['timeout', '600', 'coqc', '-Q', COQ, 'V', f], cwd=COQ)
        if r.returncode != 0:
            m = re.search(r'File "\./([^"]+)", line (\d+)', r.stdout)
            line = int(m.group(2)) if m else 0
            src = open(COQ + '/' + f).read().splitlines()[:line]
            ls = [l for l in src if re.match(r'\s*(Lemma|Theorem|Example)\s', l)]
            return (f, line, ls[-1].split()[1] if ls else '?', round(time.time() - t0, 1))
    return None

def regen():
    r = sh(['python3', '/verif/props/GenSer/pre.py', REPO, COQ])
    return r.stdout

def sub(path, old, new, count=1):
    s = open(REPO + '/' + path).read()
    assert s.count(old) >= 1, (path, old)
    open(REPO + '/' + path, 'w').write(s.replace(old, new, count))

SER = 'serialize-derive/src/serialize.rs'
DE = 'serialize-derive/src/deserialize.rs'

def m_seed(n):
    def f():
        r = sh('cd %s && patch -p1 < /verif/seeded/C18/%d/patch.diff' % (REPO, n))
        assert r.returncode == 0, r.stdout
    return f

def m_reverse():
    sub(SER, 'let gen = quote! {\n        impl #impl_generics ark_serialize::CanonicalSerialize',
        'serialize_body.reverse();\n    let gen = quote! {\n        impl #impl_generics ark_serialize::CanonicalSerialize')

def m_size_omit():
    sub(SER, 'let gen = quote! {\n        impl #impl_generics ark_serialize::CanonicalSerialize',
        'if serialized_size_body.len() > 1 { serialized_size_body.remove(1); }\n    let gen = quote! {\n        impl #impl_generics ark_serialize::CanonicalSerialize')

def m_validate_no():
    # nested tuple components are read with Validate::No (top-level fields keep `validate`)
    sub(DE, 'tuple.elems.iter().map(impl_deserialize_field).collect();',
        'tuple.elems.iter().map(|t| { let f = impl_deserialize_field(t); let s = f.to_string().replace("validate", "ark_serialize :: Validate :: No"); s.parse::<TokenStream>().unwrap() }).collect();')

def m_upstream_style():
    # every field read with Validate::No, then the whole value checked (the shape of later upstream versions)
    sub(DE, 'quote! { CanonicalDeserialize::deserialize_with_mode(&mut reader, compress, validate)?, }',
        'quote! { CanonicalDeserialize::deserialize_with_mode(&mut reader, compress, ark_serialize::Validate::No)?, }')
    sub(DE, '''                quote!({
                    Ok(#name (
                        #(#field_cases)*
                     ))
                })''', '''                quote!({
                    let result = #name (
                        #(#field_cases)*
                     );
                    if let ark_serialize::Validate::Yes = validate { ark_serialize::Valid::check(&result)?; }
                    Ok(result)
                })''')
    sub(DE, '''                quote!({
                    Ok(#name {
                        #(#field_cases)*
                    })
                })''', '''                quote!({
                    let result = #name {
                        #(#field_cases)*
                    };
                    if let ark_serialize::Validate::Yes = validate { result.check()?; }
                    Ok(result)
                })''')

def m_check_drop_last():
    sub(DE, 'let gen = quote! {\n        impl #impl_generics ark_serialize::Valid for',
        'check_body.pop();\n    let gen = quote! {\n        impl #impl_generics ark_serialize::Valid for')

def m_compress_pinned():
    sub(SER, 'size += CanonicalSerialize::serialized_size(&self.#(#idents).*, compress);',
        'size += CanonicalSerialize::serialized_size(&self.#(#idents).*, ark_serialize::Compress::Yes);')

def m_benign():
    for a, b in (('mut writer: W', 'mut w: W'), ('&mut writer, compress)?;', '&mut w, cm)?;'), ('compress: ark_serialize::Compress) -> Result<(),', 'cm: ark_serialize::Compress) -> Result<(),'),
                 ('fn serialized_size(&self, compress: ark_serialize::Compress)', 'fn serialized_size(&self, cm: ark_serialize::Compress)'),
                 ('let mut size = 0;', 'let mut total = 0;'), ('\n                size\n', '\n                total\n'),
                 ('size += CanonicalSerialize::serialized_size(&self.#(#idents).*, compress);', 'total += CanonicalSerialize::serialized_size(&self.#(#idents).*, cm);')):
        sub(SER, a, b)
    for a, b in (('batch.iter().map(|v| &v.#(#idents).*)', 'items.iter().map(|elem| &elem.#(#idents).*)'),
                 ('let batch: Vec<_> = batch.collect();', 'let items: Vec<_> = batch.collect();'),
                 ('(&mut reader, compress, validate)?,', '(&mut rd, cm, vd)?,'),
                 ('mut reader: R,', 'mut rd: R,'), ('compress: ark_serialize::Compress,\n                validate: ark_serialize::Validate,', 'cm: ark_serialize::Compress,\n                vd: ark_serialize::Validate,')):
        sub(DE, a, b)

def m_unknown_shape():
    sub(SER, '#(#serialize_body)*\n                Ok(())', 'for _ in 0..1 { #(#serialize_body)* }\n                Ok(())')

def m_no_compile():
    sub(SER, 'let mut size = 0;', 'let mut size = 0')

TESTS = [
    ('baseline (unmodified copy)', None, 'pass'),
    ('seeded C18/3: nested-tuple access path reset (self.b.1.0 emitted as self.b.0)', m_seed(3), 'gen_NT_enc_eq'),
    ('seeded C18/6: batch_check returns Ok early when size_hint().0 == 0', m_seed(6), 'gen_Named_batch_check_eq'),
    ('fields serialized in reverse order', m_reverse, 'gen_Named_enc_eq'),
    ('serialized_size omits the second field', m_size_omit, 'gen_Named_size_eq'),
    ('nested tuple components deserialized with Validate::No', m_validate_no, 'gen_NT_dec_eq'),
    ('every field read with Validate::No, whole value checked afterwards', m_upstream_style, 'gen_Named_dec_eq'),
    ('Valid::check skips the last field', m_check_drop_last, 'gen_Named_check_eq'),
    ('serialized_size computed with Compress::Yes whatever the argument', m_compress_pinned, 'gen_Named_size_eq'),
    ('benign: writer/reader/compress/validate/size/batch/closure variable renamed', m_benign, 'pass'),
    ('serialize body wrapped in a `for` loop (outside the subset)', m_unknown_shape, 'pass+note'),
    ('macro output does not compile', m_no_compile, 'pass+note'),
]

if __name__ == '__main__':
    only = sys.argv[1:]
    for i, (desc, mut, expect) in enumerate(TESTS):
        if only and str(i) not in only:
            continue
        fresh_repo(); fresh_coq()
        if mut:
            mut()
        t0 = time.time()
        out = regen()
        t1 = time.time()
        b = build()
        t2 = time.time()
        notes = [l for l in out.splitlines() if l.startswith('NOTE') and 'not translated' in l or 'not available' in l]
        got = 'pass' if b is None else b[2]
        if b is None and notes:
            got = 'pass+note'
        print('%2d %-4s expect=%s got=%s  regen %.1fs build %.1fs | %s' % (i, 'OK' if got == expect else 'BAD', expect, got, t1 - t0, t2 - t1, desc))
        print('     ' + out.strip().splitlines()[0])
        for n in notes[:2]:
            print('     ' + n[:260])
        if b is not None:
            print('     fails at %s line %d (%s, %.1fs)' % (b[0], b[1], b[2], b[3]))
        sys.stdout.flush()
    shutil.rmtree(ROOT, ignore_errors=True)
