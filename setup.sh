#!/bin/sh
# Builds the whole framework offline from files on disk: Coq development (full .vo
# build), extracted OCaml models, Rust correspondence harness (against /repo's tree).
set -e
cd /verif
export CARGO_NET_OFFLINE=true
mkdir -p build/ocaml build/bin build/cases evidence replays
python3 - <<'PY'
import sys
sys.path.insert(0, '/verif/lib')
import vcheck
vcheck.ensure_coq_makefile()
PY
# generated inputs (translator output is committed too, this refreshes it from /repo)
python3 lib/xlate_arith.py /repo/ff/src/biginteger/arithmetic.rs /verif/coq/C15/GenArith.v || true
for p in props/C*/; do
  id=$(basename "$p")
  if [ -x "$p/pre.sh" ]; then "$p/pre.sh" || true; fi
done
# translator outputs are committed; refresh them from /repo (each keeps the committed text if it cannot translate)
python3 lib/xlate_field.py /repo /verif/coq/Gen/GenField.v || true
python3 lib/xlate_field.py --table2 /repo /verif/coq/Gen/GenField2.v || true
python3 lib/xlate_field.py --table3 /repo /verif/coq/Gen/GenField3.v || true
python3 lib/xlate_limb.py /repo /verif/coq/GenLimb/GenLimb.v || true
python3 lib/xlate_limb.py --derive /repo /verif/coq/GenLimb/GenDerive.v || true
python3 lib/xlate_serde.py /repo /verif/coq/GenSer/GenSer.v || true
( cd coq && timeout 7000 make -j16 -k ) || echo 'setup: some Coq targets failed (each check reports its own)'
for f in coq/Extract/Extract*.v; do
  id=$(basename "$f" .v | sed 's/^Extract//')
  lib/build_model.sh "$id" || echo "setup: model $id did not build"
done
[ -f harness/Cargo.lock ] || cp /repo/Cargo.lock harness/Cargo.lock
( cd harness && RUSTFLAGS="--cfg arkworks_rs_algebra_verif" cargo build --offline --bins --keep-going ) || echo "setup: some harness bins failed"
echo setup-ok
